// Package c01 decides C01 (Raft: every replica's pinset equals the committed
// pin/unpin sequence) by exhaustively enumerating short operation histories x
// pin variants x snapshot / partition / restart / kill points on 1 and 3 REAL
// raft.Consensus peers (hashicorp/raft, boltdb, go-libp2p-raft transport) over
// a libp2p mocknet inside testing/synctest bubbles (fake clock).
package c01

import (
	"context"
	"fmt"
	"os"
	"os/exec"
	"runtime"
	"sort"
	"strconv"
	"strings"
	"testing"
	"testing/synctest"
	"time"

	"github.com/ipfs/ipfs-cluster/api"
	"github.com/ipfs/ipfs-cluster/consensus/raft"
	"github.com/ipfs/ipfs-cluster/datastore/inmem"

	cid "github.com/ipfs/go-cid"
	host "github.com/libp2p/go-libp2p-core/host"
	peer "github.com/libp2p/go-libp2p-core/peer"
	mocknet "github.com/libp2p/go-libp2p/p2p/net/mock"

	"verif/harness/lib/clus"
	"verif/harness/lib/ev"
)

var R *ev.Run

const nShards = 12

func TestMain(m *testing.M) {
	R = ev.New("C01", "model_checking")
	R.Rule("one evaluation = one history (operations x pin variants x submitting role, with at most D composite deviations: follower lag with/without snapshot+log truncation, snapshot tick, restart, kill-and-recover-from-disk-copy) executed on real Raft peers in a fresh bubble; states = distinct canonical (per-peer pinset, roles, liveness) states observed at quiescent points; transitions = events applied; distinct_nontrivial = distinct (history shape, outcome) pairs")
	R.Assume("kills are taken at quiescent points only (disk image = copy of the data folder while nothing is in flight): torn boltdb/snapshot writes are not modelled")
	R.Assume("leader identity is decided by hashicorp/raft's randomised election timeouts; histories address roles (leader / first follower) resolved at run time")
	R.Assume("'caught up' is established without hooks by a marker operation: a peer whose state shows a marker committed after the history has applied or restored everything before it")
	ev.Main(m.Run, R)
}

// ---------- histories ----------

type op struct {
	Kind string // pin | unpin
	V    int    // pin variant index
	C    int    // cid index
	At   string // L (leader) | F (first follower)
}

type dev struct {
	Kind string // lag | lagsnap | plag | snap | restartF | restartL | killF | killL | pkillF | pkillL | isoL | rpcfail | rpclost
	I, J int    // lag: isolate before op I, heal before op J (J = len means after the last op)
}

type history struct {
	N    int
	Ops  []op
	Devs []dev
}

func (h history) String() string {
	var s []string
	for _, o := range h.Ops {
		if o.Kind == "pin" {
			s = append(s, fmt.Sprintf("pin(%s,c%d)@%s", variants[o.V].Name, o.C, o.At))
		} else {
			s = append(s, fmt.Sprintf("unpin(c%d)@%s", o.C, o.At))
		}
	}
	var d []string
	for _, x := range h.Devs {
		d = append(d, fmt.Sprintf("%s[%d,%d]", x.Kind, x.I, x.J))
	}
	return fmt.Sprintf("n=%d %s | %s", h.N, strings.Join(s, " "), strings.Join(d, " "))
}

// shape abstracts a history for violation keys (no variant names unless relevant).
func (h history) shape() string {
	var s []string
	for _, o := range h.Ops {
		s = append(s, o.Kind[:1])
	}
	var d []string
	for _, x := range h.Devs {
		d = append(d, x.Kind)
	}
	return fmt.Sprintf("n%d:%s:%s", h.N, strings.Join(s, ""), strings.Join(d, "+"))
}

var variants = clus.PinAlphabet()

// cidOf: c0 and c1 are unrelated CIDs (v1, raw); c2 and c3 are other CIDs of
// c0's multihash (CIDv0; v1 dag-pb): distinct CIDs are distinct entries.
func cidOf(i int) cid.Cid {
	switch i {
	case 2:
		return clus.CidV0("c0")
	case 3:
		return cid.NewCidV1(cid.DagProtobuf, clus.Cid("c0").Hash())
	}
	return clus.Cid(fmt.Sprintf("c%d", i))
}

func opAlphabet(nvar int, roles []string) []op {
	var out []op
	for _, at := range roles {
		for v := 0; v < nvar; v++ {
			for c := 0; c < 2; c++ {
				out = append(out, op{"pin", v, c, at})
			}
		}
		for c := 0; c < 2; c++ {
			out = append(out, op{"unpin", 0, c, at})
		}
	}
	return out
}

func devsFor(n, nops int, thorough bool) []dev {
	var out []dev
	if n == 1 {
		for i := 0; i <= nops; i++ {
			out = append(out, dev{"snap", i, 0}, dev{"restartL", i, 0}, dev{"killL", i, 0})
			if i > 0 {
				out = append(out, dev{"pkillL", i, 0})
			}
		}
		return out
	}
	for i := 0; i <= nops; i++ {
		out = append(out, dev{"snap", i, 0}, dev{"restartF", i, 0}, dev{"restartL", i, 0}, dev{"killF", i, 0})
		if i < nops {
			out = append(out, dev{"isoL", i, 0})
			// op i is submitted at a follower while the leader's cluster RPC
			// fails the first J redirected calls (J=2: every try): without
			// effect (rpcfail) or after committing (rpclost, response lost)
			out = append(out, dev{"rpcfail", i, 1}, dev{"rpcfail", i, 2}, dev{"rpclost", i, 1})
			if thorough {
				out = append(out, dev{"rpclost", i, 2})
			}
		}
		if i > 0 {
			// the same after a pause: log entries are replayed later than
			// they were committed (but before any snapshot is due)
			out = append(out, dev{"pkillF", i, 0}, dev{"pkillL", i, 0})
		}
		if thorough {
			out = append(out, dev{"killL", i, 0})
		}
		for j := i + 1; j <= nops; j++ {
			out = append(out, dev{"lag", i, j}, dev{"lagsnap", i, j})
		}
	}
	return out
}

func seqs(alpha []op, n int) [][]op {
	if n == 0 {
		return [][]op{nil}
	}
	var out [][]op
	for _, s := range seqs(alpha, n-1) {
		for _, a := range alpha {
			out = append(out, append(append([]op{}, s...), a))
		}
	}
	return out
}

// enumerate builds the deterministic list of histories for the tier.
func enumerate() []history {
	th := ev.Thorough()
	var hs []history
	// (A) every pin variant as a single-op history through follower->leader
	// redirect, log, snapshot, restore; plus pin-then-unpin
	for _, n := range []int{1, 3} {
		roles := []string{"L"}
		if n == 3 {
			roles = []string{"L", "F"}
		}
		for v := range variants {
			for _, at := range roles {
				if n == 3 && at == "L" && !th {
					continue // the redirected submission also commits at the leader
				}
				base := []op{{"pin", v, 0, at}}
				hs = append(hs, history{N: n, Ops: base})
				for _, d := range devsFor(n, 1, th) {
					if d.Kind == "lag" || d.Kind == "lagsnap" || d.Kind == "plag" {
						continue
					}
					if (d.Kind == "rpcfail" || d.Kind == "rpclost") && at == "L" {
						continue // same history as with at == "F"
					}
					hs = append(hs, history{N: n, Ops: base, Devs: []dev{d}})
				}
				hs = append(hs, history{N: n, Ops: []op{{"pin", v, 0, at}, {"unpin", 0, 0, "L"}}})
				if n == 3 {
					hs = append(hs, history{N: n, Ops: base, Devs: []dev{{"plag", 0, 1}}}, history{N: n, Ops: base, Devs: []dev{{"lag", 0, 1}}})
				}
			}
		}
	}
	// (B) all histories over reduced alphabets with <= D deviations. The
	// bounds are chosen so that the whole list can really be executed (quick:
	// ~3.4k histories, thorough: ~45k); every block below is complete for
	// its alphabet, length and deviation count.
	type block struct {
		n, l, maxDev int
		alpha        []op
	}
	collide := func(roles ...string) []op { // one CID, two variants
		var out []op
		for _, r := range roles {
			out = append(out, op{"pin", 0, 0, r}, op{"pin", 1, 0, r}, op{"unpin", 0, 0, r})
		}
		return out
	}
	var blocks []block
	if !th {
		full := opAlphabet(2, []string{"L"})
		blocks = []block{
			{1, 1, 1, full}, {1, 2, 1, full},
			{3, 1, 1, full}, {3, 2, 1, full}, {3, 3, 1, collide("L")},
		}
	} else {
		full1 := opAlphabet(2, []string{"L"})
		full3 := opAlphabet(2, []string{"L", "F"})
		blocks = []block{
			{1, 1, 2, full1}, {1, 2, 1, full1}, {1, 3, 1, full1}, {1, 2, 2, collide("L")}, {1, 4, 1, collide("L")},
			{3, 1, 2, full3}, {3, 2, 1, full3}, {3, 3, 1, collide("L", "F")}, {3, 2, 2, collide("L")}, {3, 4, 1, collide("L")},
		}
	}
	// (C) CIDs that share a multihash (same content addressed as CIDv0, as
	// v1/raw and as v1/dag-pb): complete for its alphabet and lengths
	alias := func(roles ...string) []op {
		var out []op
		for _, r := range roles {
			for _, c := range []int{0, 2, 3} {
				out = append(out, op{"pin", c % 2, c, r}, op{"unpin", 0, c, r})
			}
		}
		return out
	}
	if !th {
		blocks = append(blocks, block{1, 2, 1, alias("L")}, block{3, 2, 0, alias("L")})
	} else {
		blocks = append(blocks, block{1, 2, 1, alias("L")}, block{1, 3, 1, alias("L")}, block{3, 2, 1, alias("L", "F")})
	}
	// (D) pins of one CID that differ only in what api.Pin.Equals does not
	// look at (pin-update source, the metadata entry under the empty key):
	// the later one still replaces the entry
	lax := func(role string) []op {
		var out []op
		for v, pv := range variants {
			switch pv.Name {
			case "plain", "update-v1", "update-v0", "meta-emptykey":
				out = append(out, op{"pin", v, 0, role})
			}
		}
		return out
	}
	blocks = append(blocks, block{1, 2, 1, lax("L")}, block{3, 2, 0, lax("L")})
	seen := map[string]bool{}
	add := func(h history) {
		k := h.String()
		if !seen[k] {
			seen[k] = true
			hs = append(hs, h)
		}
	}
	for _, b := range blocks {
		for _, s := range seqs(b.alpha, b.l) {
			add(history{N: b.n, Ops: s})
			ds := devsFor(b.n, b.l, th)
			if b.maxDev == 0 {
				ds = nil
			}
			for i, d := range ds {
				add(history{N: b.n, Ops: s, Devs: []dev{d}})
				if b.maxDev >= 2 {
					for _, d2 := range ds[i+1:] {
						if overlap(d, d2) {
							continue
						}
						add(history{N: b.n, Ops: s, Devs: []dev{d, d2}})
					}
				}
			}
		}
	}
	return hs
}

// overlap: two lag windows may not overlap (one follower is lagged at a time)
// and nothing else happens to F while it is isolated.
func overlap(a, b dev) bool {
	isLag := func(d dev) bool { return d.Kind == "lag" || d.Kind == "lagsnap" || d.Kind == "plag" }
	in := func(d dev, i int) bool { return i >= d.I && i <= d.J }
	if isLag(a) && isLag(b) {
		return !(a.J < b.I || b.J < a.I)
	}
	if isLag(a) && (b.Kind == "restartF" || b.Kind == "killF" || b.Kind == "pkillF") {
		return in(a, b.I)
	}
	if isLag(b) && (a.Kind == "restartF" || a.Kind == "killF" || a.Kind == "pkillF") {
		return in(b, a.I)
	}
	return false
}

// ---------- world ----------

type slot struct {
	idx       int
	host      host.Host
	dir       string
	rp        *clus.RaftPeer
	disturbed bool
	isolated  bool
}

type world struct {
	t        *testing.T
	mn       mocknet.Mocknet
	slots    []*slot
	ids      []peer.ID
	scratch  string
	ref      []refOp       // operations in submission order (acknowledged, or flagged maybe)
	oldL     *slot         // isolated former leader (isoL deviation)
	lostSvc  *clus.ConsSvc // rpclost: the service that loses responses during the next operation
	lostBase int32         // its Failed counter before the operation
	viol     []finding
	states   map[string]bool
	trans    int
}

type refOp struct {
	unpin bool
	pin   *api.Pin
	maybe bool // acknowledgement failed: may or may not be part of the sequence
}

// variantsOf returns the committed sequence with every subset of the
// unacknowledged operations included.
func variantsOf(ops []refOp) [][]refOp {
	out := [][]refOp{nil}
	for _, o := range ops {
		var next [][]refOp
		for _, v := range out {
			if o.maybe {
				next = append(next, append([]refOp{}, v...))
			}
			next = append(next, append(append([]refOp{}, v...), o))
		}
		out = next
	}
	return out
}

func wantSigs(ops []refOp) map[string]bool {
	m := map[string]bool{}
	for _, v := range variantsOf(ops) {
		m[sigOf(apply(v))] = true
	}
	return m
}

type finding struct {
	key    string
	detail string
}

var commitRetries = 1

func tweak(cfg *raft.Config) {
	cfg.CommitRetries = commitRetries
	cfg.RaftConfig.SnapshotInterval = 15 * time.Second
	cfg.RaftConfig.SnapshotThreshold = 1
	cfg.RaftConfig.TrailingLogs = 0
	cfg.WaitForLeaderTimeout = 20 * time.Second
}

func (w *world) fail(key, format string, a ...interface{}) {
	w.viol = append(w.viol, finding{key, fmt.Sprintf(format, a...)})
}

func (w *world) start(s *slot, dir string) error {
	rp, err := clus.NewRaftPeer(s.host, dir, w.ids, false, tweak)
	if err != nil {
		return err
	}
	s.rp = rp
	s.dir = dir
	return nil
}

func (w *world) waitReady(s *slot) bool {
	select {
	case <-s.rp.Cons.Ready(context.Background()):
		return true
	case <-time.After(90 * time.Second):
		return false
	}
}

func (w *world) leader() *slot {
	for try := 0; try < 20; try++ {
		for _, s := range w.slots {
			if s.isolated {
				continue
			}
			l, err := s.rp.Cons.Leader(context.Background())
			if err == nil {
				for _, x := range w.slots {
					if x.host.ID() == l && !x.isolated {
						return x
					}
				}
			}
		}
		time.Sleep(time.Second)
	}
	return nil
}

func (w *world) follower() *slot {
	l := w.leader()
	for _, s := range w.slots {
		if s != l {
			return s
		}
	}
	return nil
}

func (w *world) settle() {
	time.Sleep(1 * time.Second)
	synctest.Wait()
}

func apply(ops []refOp) map[string]string {
	m := map[string]string{}
	for _, o := range ops {
		if o.unpin {
			delete(m, o.pin.Cid.String())
		} else {
			m[o.pin.Cid.String()] = clus.PinSig(o.pin)
		}
	}
	return m
}

func sigOf(m map[string]string) string {
	var s []string
	for _, v := range m {
		s = append(s, v)
	}
	sort.Strings(s)
	return strings.Join(s, "\n")
}

func (w *world) stateSig(s *slot) (string, error) {
	st, err := s.rp.Cons.State(context.Background())
	if err != nil {
		return "", err
	}
	l, err := st.List(context.Background())
	if err != nil {
		return "", err
	}
	return strings.Join(clus.PinsetSig(l), "\n"), nil
}

// prefixSigs returns the signature of apply(ref[:k]) for every k, plus the
// alternatives with the unacknowledged operation applied at the end.
func (w *world) prefixSigs() map[string]int {
	out := map[string]int{}
	for k := 0; k <= len(w.ref); k++ {
		for sg := range wantSigs(w.ref[:k]) {
			if _, ok := out[sg]; !ok {
				out[sg] = k
			}
		}
	}
	return out
}

// checkPrefix: every live member's pinset is the result of a prefix of the
// committed sequence.
func (w *world) checkPrefix(where string) {
	pre := w.prefixSigs()
	var canon []string
	for _, s := range w.slots {
		sig, err := w.stateSig(s)
		if err != nil {
			w.fail("state-error", "%s: peer %d State(): %v", where, s.idx, err)
			continue
		}
		k, ok := pre[sig]
		if !ok {
			w.fail("not-a-prefix", "%s: peer %d holds a pinset that is not the result of any prefix of the %d committed operations:\n%s", where, s.idx, len(w.ref), sig)
		}
		canon = append(canon, fmt.Sprintf("%d:k=%d:iso=%v", s.idx, k, s.isolated))
	}
	w.states[strings.Join(canon, ",")+fmt.Sprintf("/n=%d", len(w.ref))] = true
}

func (w *world) doOp(o op) bool {
	ctx, cancel := context.WithTimeout(context.Background(), 60*time.Second)
	defer cancel()
	var target *slot
	if o.At == "OL" && w.oldL != nil {
		target = w.oldL
	} else {
		target = w.leader()
	}
	if target == nil {
		w.viol = append(w.viol, finding{"harness:no-leader", "no leader found"})
		return false
	}
	if o.At == "F" && len(w.slots) > 1 {
		// a connected follower
		for _, s := range w.slots {
			if s != target && !s.isolated {
				target = s
				break
			}
		}
	}
	ro := refOp{}
	var err error
	if o.Kind == "pin" {
		ro.pin = variants[o.V].Make(cidOf(o.C))
		err = target.rp.Cons.LogPin(ctx, variants[o.V].Make(cidOf(o.C)))
	} else {
		ro.unpin = true
		ro.pin = api.PinCid(cidOf(o.C))
		err = target.rp.Cons.LogUnpin(ctx, api.PinCid(cidOf(o.C)))
	}
	w.trans++
	// rpclost: every injected failure that was really hit stands for an
	// attempt that the leader may have committed although the caller saw an
	// error. (How the call ends is not prescribed: after failed redirects the
	// submitting peer may find itself leader and commit the operation.)
	if w.lostSvc != nil {
		for k := int32(0); k < w.lostSvc.Failed.Load()-w.lostBase; k++ {
			dup := ro
			dup.maybe = true
			w.ref = append(w.ref, dup)
		}
	}
	if err != nil {
		ro.maybe = true
		w.ref = append(w.ref, ro)
		w.viol = append(w.viol, finding{"info:op-error", fmt.Sprintf("%v failed: %v", o, err)})
		return true
	}
	w.ref = append(w.ref, ro)
	if o.At == "OL" {
		return true // acknowledged by a deposed leader: judged at the end
	}
	// acknowledged => visible on the peer that committed it (the leader), now
	l := w.leader()
	if l != nil {
		sig, serr := w.stateSig(l)
		if serr != nil {
			w.fail("state-error", "after ack: leader State(): %v", serr)
		} else if !wantSigs(w.ref)[sig] {
			w.fail("ack-not-visible", "operation %v acknowledged but the leader's pinset is not the result of the committed sequence:\n%s\nexpected:\n%s", o, sig, sigOf(apply(w.ref)))
		}
	}
	return true
}

func (w *world) isolate(s *slot, on bool) {
	for _, o := range w.slots {
		if o == s {
			continue
		}
		// the peer at the other end of a cut link may end up on the far side
		// of whoever leads next (lag heals before isoL does: the old leader
		// can win with the healed follower while its link to the third peer
		// is still cut) and then catch up through a snapshot install, which
		// hands nothing to the tracker: only peers that kept every link
		// count as undisturbed
		o.disturbed = true
		if on {
			w.mn.DisconnectPeers(s.host.ID(), o.host.ID())
			w.mn.UnlinkPeers(s.host.ID(), o.host.ID())
		} else {
			w.mn.LinkPeers(s.host.ID(), o.host.ID())
			w.mn.ConnectPeers(s.host.ID(), o.host.ID())
		}
	}
	s.isolated = on
	s.disturbed = true
	w.trans++
}

func copyDir(src, dst string) error {
	return exec.Command("cp", "-a", src, dst).Run()
}

func (w *world) restart(s *slot, kill bool) bool {
	ctx := context.Background()
	s.disturbed = true
	dir := s.dir
	if kill {
		// disk image at a quiescent point, taken before the instance gets a
		// chance to snapshot on shutdown
		dir = fmt.Sprintf("%s-k%d", s.dir, w.trans)
		if err := copyDir(s.dir, dir); err != nil {
			w.viol = append(w.viol, finding{"harness:copy", err.Error()})
			return false
		}
	}
	s.rp.Cons.Shutdown(ctx)
	w.trans++
	if err := w.start(s, dir); err != nil {
		w.fail("restart-failed", "peer %d cannot start on its own data (kill=%v): %v", s.idx, kill, err)
		return false
	}
	if !w.waitReady(s) {
		w.fail("restart-not-ready", "peer %d did not become ready within 90s after restart (kill=%v)", s.idx, kill)
		return false
	}
	return true
}

// run executes one history and returns its outcome.
func run(t *testing.T, h history) (outcome string, viol []finding, states map[string]bool, trans int) {
	scratch, _ := os.MkdirTemp(os.Getenv("VERIF_SCRATCH"), "c01")
	defer os.RemoveAll(scratch)
	outcome = "ok"
	commitRetries = 1
	for _, d := range h.Devs {
		if d.Kind == "isoL" {
			commitRetries = 0 // the failed commit is the last attempt
		}
	}
	clus.Bubble(t, func(t *testing.T) {
		ctx := context.Background()
		mn, hosts := clus.NewMocknet(ctx, 0, h.N)
		w := &world{t: t, mn: mn, scratch: scratch, states: map[string]bool{}}
		for _, hh := range hosts {
			w.ids = append(w.ids, hh.ID())
		}
		for i, hh := range hosts {
			s := &slot{idx: i, host: hh}
			w.slots = append(w.slots, s)
			if err := w.start(s, fmt.Sprintf("%s/p%d", scratch, i)); err != nil {
				t.Fatal(err)
			}
		}
		defer func() {
			for _, s := range w.slots {
				s.rp.Cons.Shutdown(ctx)
				s.host.Close()
			}
		}()
		for _, s := range w.slots {
			if !w.waitReady(s) {
				outcome = "harness:not-ready"
				R.Broken("cluster of %d did not become ready in 90s of fake time", h.N)
				return
			}
		}
		var lagged *slot
		stop := false
		for i := 0; i <= len(h.Ops) && !stop; i++ {
			for _, d := range h.Devs {
				switch {
				case (d.Kind == "lag" || d.Kind == "lagsnap" || d.Kind == "plag") && d.I == i:
					lagged = w.follower()
					w.isolate(lagged, true)
				case (d.Kind == "lag" || d.Kind == "lagsnap" || d.Kind == "plag") && d.J == i && lagged != nil:
					if d.Kind == "plag" {
						time.Sleep(6 * time.Second)
						synctest.Wait()
					}
					if d.Kind == "lagsnap" {
						time.Sleep(31 * time.Second) // every peer takes a snapshot and truncates its log
						synctest.Wait()
					}
					w.isolate(lagged, false)
					lagged = nil
					time.Sleep(3 * time.Second)
					synctest.Wait()
				case d.Kind == "isoL" && d.I+1 == i && w.oldL != nil:
					time.Sleep(6 * time.Second) // the majority elects a new leader first
					w.isolate(w.oldL, false)
					w.oldL = nil
					time.Sleep(3 * time.Second)
					synctest.Wait()
				case d.Kind == "snap" && d.I == i:
					time.Sleep(31 * time.Second)
					synctest.Wait()
					w.trans++
				case d.Kind == "restartF" && d.I == i:
					stop = !w.restart(w.follower(), false)
				case d.Kind == "restartL" && d.I == i:
					stop = !w.restart(w.leader(), false)
				case d.Kind == "pkillF" && d.I == i:
					time.Sleep(6 * time.Second)
					synctest.Wait()
					stop = !w.restart(w.follower(), true)
				case d.Kind == "pkillL" && d.I == i:
					time.Sleep(6 * time.Second)
					synctest.Wait()
					stop = !w.restart(w.leader(), true)
				case d.Kind == "killF" && d.I == i:
					stop = !w.restart(w.follower(), true)
				case d.Kind == "killL" && d.I == i:
					stop = !w.restart(w.leader(), true)
				}
			}
			if stop {
				break
			}
			w.settle()
			w.checkPrefix(fmt.Sprintf("before op %d", i))
			if i < len(h.Ops) {
				o := h.Ops[i]
				for _, d := range h.Devs {
					if d.Kind == "isoL" && d.I == i {
						// cut the leader off and submit at once, while it
						// still believes it leads
						w.oldL = w.leader()
						w.isolate(w.oldL, true)
						o.At = "OL"
					}
				}
				var inj *clus.ConsSvc
				for _, d := range h.Devs {
					if (d.Kind == "rpcfail" || d.Kind == "rpclost") && d.I == i {
						if l := w.leader(); l != nil {
							inj = l.rp.Svc
							inj.FailAfter.Store(d.Kind == "rpclost")
							inj.FailN.Store(int32(d.J))
							o.At = "F"
							if d.Kind == "rpclost" {
								w.lostSvc, w.lostBase = inj, inj.Failed.Load()
							}
						}
					}
				}
				ok := w.doOp(o)
				w.lostSvc = nil
				if inj != nil {
					inj.FailN.Store(0)
					if inj.Failed.Load() == 0 {
						w.viol = append(w.viol, finding{"info:rpc-fault-not-reached", "the redirected call did not reach the leader that was set to fail"})
					}
				}
				if !ok {
					stop = true
				}
				w.settle()
				w.checkPrefix(fmt.Sprintf("after op %d", i))
			}
		}
		if lagged != nil {
			w.isolate(lagged, false)
		}
		if w.oldL != nil {
			time.Sleep(6 * time.Second)
			w.isolate(w.oldL, false)
			w.oldL = nil
			time.Sleep(3 * time.Second)
			synctest.Wait()
		}
		// ---- final phase: heal, marker, equality, tracker hand-over, durability
		if !stop {
			marker := api.PinCid(clus.Cid("marker"))
			marker.ReplicationFactorMin, marker.ReplicationFactorMax = -1, -1
			l := w.leader()
			mctx, cancel := context.WithTimeout(ctx, 60*time.Second)
			err := l.rp.Cons.LogPin(mctx, marker)
			cancel()
			if err != nil {
				outcome = "marker-failed"
				w.viol = append(w.viol, finding{"info:marker-failed", err.Error()})
			} else {
				w.ref = append(w.ref, refOp{pin: marker})
				wants := wantSigs(w.ref)
				want := sigOf(apply(w.ref))
				caughtUp := map[int]bool{}
				for _, s := range w.slots {
					caught := false
					var sig string
					// replication to a peer that was unreachable backs off up
					// to ~40s in hashicorp/raft
					for try := 0; try < 90; try++ {
						sig, _ = w.stateSig(s)
						if strings.Contains(sig, "cid="+marker.Cid.String()+" ") {
							caught = true
							break
						}
						w.settle()
					}
					if !caught {
						outcome = "no-catch-up"
						w.viol = append(w.viol, finding{"info:no-catch-up", fmt.Sprintf("peer %d never showed the marker", s.idx)})
						continue
					}
					caughtUp[s.idx] = true
					if !wants[sig] {
						w.fail("caught-up-peer-differs", "peer %d has caught up (shows the marker) but its pinset is not the result of the whole committed sequence:\n%s\nexpected:\n%s", s.idx, sig, want)
					}
				}
				first, firstIdx := "", -1
				for _, s := range w.slots {
					if !caughtUp[s.idx] {
						continue
					}
					sig, _ := w.stateSig(s)
					if firstIdx < 0 {
						first, firstIdx = sig, s.idx
					} else if sig != first {
						w.fail("caught-up-peers-disagree", "peers %d and %d have both caught up but hold different pinsets:\n%s\n--\n%s", firstIdx, s.idx, first, sig)
					}
				}
				w.settle()
				w.checkTracker()
				// durability: shut everything down and read the state offline
				for _, s := range w.slots {
					s.rp.Cons.Shutdown(ctx)
				}
				for _, s := range w.slots {
					if !caughtUp[s.idx] {
						continue
					}
					st, err := raft.OfflineState(s.rp.Cfg, inmem.New())
					if err != nil {
						w.fail("offline-state-error", "peer %d: OfflineState: %v", s.idx, err)
						continue
					}
					lst, _ := st.List(ctx)
					if sig := strings.Join(clus.PinsetSig(lst), "\n"); !wants[sig] {
						w.fail("offline-state-differs", "peer %d: state read offline after shutdown differs from the committed sequence:\n%s\nexpected:\n%s", s.idx, sig, want)
					}
				}
			}
		}
		viol = w.viol
		states = w.states
		trans = w.trans
	})
	for _, v := range viol {
		if strings.HasPrefix(v.key, "info:") && outcome == "ok" {
			outcome = strings.TrimPrefix(v.key, "info:")
		}
	}
	return
}

// checkTracker: every applied change was handed to the local tracker with the
// stored content. Undisturbed peers must have received exactly the committed
// sequence; others (restarted: log replay repeats calls; snapshot install
// bypasses them) must only have received calls that correspond to committed
// operations.
func (w *world) checkTracker() {
	render := func(o refOp) string {
		if o.unpin {
			return "Untrack " + o.pin.Cid.String()
		}
		return "Track " + clus.PinSig(o.pin)
	}
	valid := map[string]bool{}
	for _, o := range w.ref {
		valid[render(o)] = true
	}
	// The hand-over is an asynchronous RPC per applied entry: the text
	// promises that every applied change reaches the tracker with the stored
	// content, not the order in which two changes applied back to back arrive.
	// Compared as multisets.
	canon := func(l []string) string {
		l = append([]string{}, l...)
		sort.Strings(l)
		return strings.Join(l, "\n")
	}
	allowed := map[string]bool{}
	var want string
	for _, v := range variantsOf(w.ref) {
		var l []string
		for _, o := range v {
			l = append(l, render(o))
		}
		want = strings.Join(l, "\n")
		allowed[canon(l)] = true
	}
	for _, s := range w.slots {
		var got []string
		for _, c := range s.rp.Rec.Snapshot() {
			p := c.Arg.(*api.Pin)
			if c.Method == "Untrack" {
				got = append(got, "Untrack "+p.Cid.String())
			} else {
				got = append(got, "Track "+clus.PinSig(p))
			}
		}
		for _, g := range got {
			if !valid[g] {
				w.fail("tracker-call-mismatch", "peer %d handed its tracker a change that matches no committed operation: %s", s.idx, g)
			}
		}
		if !s.disturbed && !allowed[canon(got)] {
			w.fail("tracker-calls-differ", "peer %d (never restarted or partitioned) handed its tracker\n%s\nbut the committed sequence is\n%s", s.idx, strings.Join(got, "\n"), want)
		}
	}
}

// ---------- driver ----------

// nUnits: histories are dealt to this many child processes, nShards of them
// running at a time. The thorough tier uses many short-lived children: a
// child's memory grows with the number of bubbles it has run (goroutines and
// mappings left behind by torn-down libp2p/raft instances), and 12 long-lived
// children were killed by the kernel's OOM killer.
func nUnits() int {
	if ev.Thorough() {
		return 8 * nShards
	}
	return nShards
}

func TestHistories(t *testing.T) {
	if os.Getenv("C01_DEBUG") != "" {
		t.Skip()
	}
	hs := enumerate()
	if p := os.Getenv("VERIF_REPLAY"); p != "" {
		replay(t, p, hs)
		return
	}
	if ev.ChildUnit() == "" {
		var units []string
		for i := 0; i < nUnits(); i++ {
			units = append(units, strconv.Itoa(i))
		}
		per := 10 * time.Minute
		if ev.Thorough() {
			per = 40 * time.Minute
		}
		sec := R.Sec("histories")
		sec.Bounds["histories_enumerated"] = len(hs)
		sec.Bounds["shards"] = nUnits()
		sec.Bounds["parallel_children"] = nShards
		R.RunChildren("TestHistories", units, nShards, per)
		return
	}
	shard, _ := strconv.Atoi(ev.ChildUnit())
	sec := R.Sec(fmt.Sprintf("shard-%d", shard))
	budget := 150 * time.Second
	if ev.Thorough() {
		budget = 30 * time.Minute
	}
	start := time.Now()
	done := 0
	for i, h := range hs {
		if i%nUnits() != shard {
			continue
		}
		if time.Since(start) > budget {
			R.NotExhaustive(fmt.Sprintf("shard %d: time budget reached after %d histories", shard, done))
			sec.Exhaustive = false
			break
		}
		outcome, viol, states, trans := run(t, h)
		done++
		if os.Getenv("VERIF_MEMTRACE") != "" && done%10 == 0 {
			var ms runtime.MemStats
			runtime.GC()
			runtime.ReadMemStats(&ms)
			fmt.Printf("E2 MEMTRACE shard %d done=%d goroutines=%d heap=%dMB sys=%dMB\n", shard, done, runtime.NumGoroutine(), ms.HeapAlloc>>20, ms.Sys>>20)
		}
		R.Eval(sec, h.shape()+"|"+outcome, true)
		R.Outcome(sec, outcome)
		R.States(sec, int64(len(states)))
		R.Transitions(int64(trans))
		if i < 3*nUnits() {
			R.SampleTagged("history", 6, map[string]string{"history": h.String(), "outcome": outcome})
		}
		for _, v := range viol {
			if strings.HasPrefix(v.key, "info:") || strings.HasPrefix(v.key, "harness:") {
				continue
			}
			R.Violation("C01|"+v.key+"|"+keyCtx(h), map[string]interface{}{"history": h.String(), "index": i, "finding": v.detail})
		}
	}
	fmt.Printf("E2 shard %d: %d histories in %s\n", shard, done, time.Since(start).Round(time.Second))
}

// keyCtx: which pin variants and deviations are involved (stable, narrow).
func keyCtx(h history) string {
	vs := map[string]bool{}
	for _, o := range h.Ops {
		if o.Kind == "pin" {
			vs[variants[o.V].Name] = true
		}
	}
	var v []string
	for k := range vs {
		v = append(v, k)
	}
	sort.Strings(v)
	var d []string
	for _, x := range h.Devs {
		d = append(d, x.Kind)
	}
	if len(d) == 0 {
		d = []string{"nodev"}
	}
	al := ""
	for _, o := range h.Ops {
		if o.C >= 2 {
			al = "|cids-sharing-a-multihash"
		}
	}
	return "variants=" + strings.Join(v, ",") + "|" + strings.Join(d, "+") + al
}

func replay(t *testing.T, path string, hs []history) {
	b, err := os.ReadFile(path)
	if err != nil {
		t.Fatal(err)
	}
	i := strings.Index(string(b), `"index":`)
	if i < 0 {
		t.Fatal("no index in replay file")
	}
	var idx int
	fmt.Sscanf(string(b)[i+8:], "%d", &idx)
	h := hs[idx]
	outcome, viol, states, trans := run(t, h)
	fmt.Println("REPLAY", h.String(), "=>", outcome)
	R.Eval(R.Sec("replay"), h.shape()+"|"+outcome, true)
	R.Eval(R.Sec("replay"), "replayed", true)
	R.States(nil, int64(len(states))+1)
	R.Transitions(int64(trans) + 1)
	R.Sample(h.String())
	for _, v := range viol {
		fmt.Println("  ", v.key, v.detail)
		if !strings.HasPrefix(v.key, "info:") && !strings.HasPrefix(v.key, "harness:") {
			R.Violation("C01|"+v.key+"|"+keyCtx(h), map[string]interface{}{"history": h.String(), "index": idx, "finding": v.detail})
		}
	}
}
