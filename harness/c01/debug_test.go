package c01

import (
	"fmt"
	"os"
	"strings"
	"testing"
)

// TestDebug runs the first history whose description contains C01_DEBUG.
func TestDebug(t *testing.T) {
	pat := os.Getenv("C01_DEBUG")
	if pat == "" {
		t.Skip()
	}
	for i, h := range enumerate() {
		if strings.Contains(h.String(), pat) {
			out, viol, _, _ := run(t, h)
			fmt.Println("DEBUG", i, h.String(), "=>", out)
			for _, v := range viol {
				fmt.Println("   ", v.key, v.detail)
			}
			R.Eval(nil, "a", true)
			R.Eval(nil, "b", true)
			R.States(nil, 1)
			R.Transitions(1)
			R.Sample("debug")
			return
		}
	}
}

// TestCount prints the number of enumerated histories (C01_COUNT=1).
func TestCount(t *testing.T) {
	if os.Getenv("C01_COUNT") == "" {
		t.Skip()
	}
	fmt.Println("COUNT", len(enumerate()))
	R.Eval(nil, "a", true)
	R.Eval(nil, "b", true)
	R.States(nil, 1)
	R.Transitions(1)
	R.Sample("count")
}
