package c08

import (
	"encoding"
	"encoding/json"
	"fmt"
	"net/url"
	"reflect"
	"strings"
	"testing"

	"github.com/ipfs/ipfs-cluster/api"
	peer "github.com/libp2p/go-libp2p-core/peer"

	"verif/harness/lib/ev"
)

type fieldName struct{ name string }

var (
	tBinU  = reflect.TypeOf((*encoding.BinaryUnmarshaler)(nil)).Elem()
	tJSONU = reflect.TypeOf((*json.Unmarshaler)(nil)).Elem()
	tTextU = reflect.TypeOf((*encoding.TextUnmarshaler)(nil)).Elem()
)

func isLeafType(t reflect.Type) bool {
	if t == tTime || t == tCid {
		return true
	}
	pt := reflect.PtrTo(t)
	return pt.Implements(tBinU) || pt.Implements(tJSONU) || pt.Implements(tTextU)
}

type sfield struct {
	name string
	typ  reflect.Type
}

// structFields lists the wire names of a struct's fields for the tag
// ("codec" or "json"), flattening embedded structs like both libraries do.
func structFields(t reflect.Type, tag string) []sfield {
	var out []sfield
	for i := 0; i < t.NumField(); i++ {
		f := t.Field(i)
		if f.PkgPath != "" && !f.Anonymous {
			continue
		}
		tv := f.Tag.Get(tag)
		name := strings.Split(tv, ",")[0]
		if name == "-" {
			continue
		}
		if f.Anonymous && name == "" && f.Type.Kind() == reflect.Struct && !isLeafType(f.Type) {
			out = append(out, structFields(f.Type, tag)...)
			continue
		}
		if name == "" {
			name = f.Name
		}
		out = append(out, sfield{name, f.Type})
	}
	return out
}

func fieldNamesOf(v interface{}, tag string) []fieldName {
	t := reflect.TypeOf(v)
	if t.Kind() != reflect.Struct || isLeafType(t) {
		return nil
	}
	var out []fieldName
	for _, f := range structFields(t, tag) {
		out = append(out, fieldName{f.name})
	}
	return out
}

// ---- msgpack document builders ----

func mpStr(s string) []byte {
	if len(s) < 32 {
		return append([]byte{0xa0 | byte(len(s))}, s...)
	}
	return append([]byte{0xd9, byte(len(s))}, s...)
}
func mpBin(b []byte) []byte { return append([]byte{0xc4, byte(len(b))}, b...) }
func mpMap1(k string, v []byte) []byte {
	return append(append([]byte{0x81}, mpStr(k)...), v...)
}
func mpArr1(v []byte) []byte { return append([]byte{0x91}, v...) }

func cat(parts ...[]byte) []byte {
	var o []byte
	for _, p := range parts {
		o = append(o, p...)
	}
	return o
}

func msgpackJunk() [][]byte {
	tEnc, _ := mpEnc(refT)
	j := [][]byte{
		{0xc0}, {0xc2}, {0xc3}, {0x00}, {0x01}, {0x7f}, {0xff}, {0xe0},
		{0xcc, 0xff}, {0xcd, 0xff, 0xff}, {0xce, 0xff, 0xff, 0xff, 0xff},
		{0xcf, 0xff, 0xff, 0xff, 0xff, 0xff, 0xff, 0xff, 0xff},
		{0xd0, 0x80}, {0xd1, 0x80, 0x00}, {0xd2, 0x80, 0, 0, 0}, {0xd3, 0x80, 0, 0, 0, 0, 0, 0, 0},
		{0xca, 0x7f, 0xc0, 0, 0}, {0xcb, 0x7f, 0xf0, 0, 0, 0, 0, 0, 0}, {0xcb, 0x3f, 0xf8, 0, 0, 0, 0, 0, 0},
		mpStr(""), mpStr("x"), mpStr("pinned"), mpStr("recursive"), mpStr(cidV0.String()), mpStr(cidV1.String()),
		mpStr(ma1.String()), mpStr(peer.Encode(p1)), {0xa1, 0xff}, {0xd9, 0x00}, mpStr("2026-03-04T05:06:07Z"),
		mpBin(nil), mpBin([]byte{0}), mpBin(cidV0.Bytes()), mpBin(cidV1.Bytes()), mpBin([]byte(p1)), mpBin(ma1.Bytes()),
		mpBin([]byte{0xff, 0xff, 0xff}), mpBin([]byte{0x01}), mpBin([]byte{0x12, 0x20}),
		{0x90}, {0x91, 0xc0}, {0x91, 0x01}, cat([]byte{0x91}, mpStr("x")), cat([]byte{0x91}, mpBin(nil)),
		cat([]byte{0x91}, mpBin([]byte(p1))), cat([]byte{0x91}, mpBin(ma1.Bytes())), {0x91, 0x90}, {0x91, 0x80},
		{0x92, 0xc0, 0xc0},
		{0x80}, {0x81, 0xc0, 0xc0}, mpMap1("", []byte{0xc0}), mpMap1("k", []byte{0x01}), mpMap1("k", mpStr("v")),
		{0x81, 0x01, 0x01}, mpMap1("k", []byte{0x80}), mpMap1("k", []byte{0x90}), mpMap1("k", []byte{0xc0}),
		mpMap1("k", []byte{0xc3}), mpMap1("k", mpArr1([]byte{0xc0})), mpMap1("k", mpBin([]byte(p1))),
		{0xd4, 0xff, 0x00}, {0xd6, 0xff, 0, 0, 0, 1}, {0xd7, 0xff, 0, 0, 0, 1, 0, 0, 0, 1},
		{0xc7, 0x0c, 0xff, 0, 0, 0, 1, 0, 0, 0, 0, 0, 0, 0, 1}, {0xd4, 0x01, 0x00}, {0xc7, 0x00, 0x05}, {0xc1},
		tEnc,
	}
	return j
}

func jsonJunk() [][]byte {
	strs := []string{
		`null`, `true`, `false`, `0`, `-1`, `1`, `2`, `1.5`, `1e400`, `-0`, `18446744073709551615`, `18446744073709551616`,
		`9223372036854775808`, `-9223372036854775809`, `""`, `"x"`, `"pinned"`, `"recursive"`, `"direct"`, `"\u0000"`, `"\ud800"`,
		`"` + cidV0.String() + `"`, `"` + cidV1.String() + `"`, `"` + ma1.String() + `"`, `"/ip4/1.2.3.4"`, `"/p2p/"`, `"` + peer.Encode(p1) + `"`,
		`"2026-03-04T05:06:07Z"`, `"0000-00-00T00:00:00Z"`, `"2026-03-04T05:06:07.999999999+02:00"`,
		`[]`, `[null]`, `[0]`, `[""]`, `["x"]`, `[[]]`, `[{}]`, `[null,null]`, `["` + peer.Encode(p1) + `"]`, `["` + ma1.String() + `"]`,
		`{}`, `{"":null}`, `{"k":null}`, `{"k":0}`, `{"k":"v"}`, `{"k":{}}`, `{"k":[]}`, `{"k":[null]}`, `{"k":true}`,
		`{"/":null}`, `{"/":""}`, `{"/":"x"}`, `{"/":"` + cidV0.String() + `"}`, `{"/":0}`, `{"/":{"/":"x"}}`, `{"/":"` + cidV1.String() + `","x":1}`,
	}
	var out [][]byte
	for _, s := range strs {
		out = append(out, []byte(s))
	}
	return out
}

// junkDocs returns documents of type t (wire format of codec) that each carry
// exactly one junk value, at depth <= maxDepth below the root.
func junkDocs(t reflect.Type, isJSON bool, junk [][]byte, depth int) [][]byte {
	tag := "codec"
	if isJSON {
		tag = "json"
	}
	obj := func(k string, v []byte) []byte {
		if isJSON {
			kb, _ := json.Marshal(k)
			return cat(kb[:0:0], []byte("{"), kb, []byte(":"), v, []byte("}"))
		}
		return mpMap1(k, v)
	}
	arr := func(v []byte) []byte {
		if isJSON {
			return cat([]byte("["), v, []byte("]"))
		}
		return mpArr1(v)
	}
	for t.Kind() == reflect.Ptr {
		t = t.Elem()
	}
	if t.Kind() != reflect.Struct || isLeafType(t) {
		return junk
	}
	var out [][]byte
	out = append(out, junk...) // junk in place of the whole record
	for _, f := range structFields(t, tag) {
		for _, j := range junk {
			out = append(out, obj(f.name, j))
		}
		if depth <= 0 {
			continue
		}
		ft := f.typ
		for ft.Kind() == reflect.Ptr {
			ft = ft.Elem()
		}
		switch ft.Kind() {
		case reflect.Struct:
			if !isLeafType(ft) {
				for _, nd := range junkDocs(ft, isJSON, junk, depth-1) {
					out = append(out, obj(f.name, nd))
				}
			}
		case reflect.Slice:
			et := ft.Elem()
			for et.Kind() == reflect.Ptr {
				et = et.Elem()
			}
			if et.Kind() == reflect.Struct && !isLeafType(et) {
				for _, nd := range junkDocs(et, isJSON, junk, depth-1) {
					out = append(out, obj(f.name, arr(nd)))
				}
			}
		case reflect.Map:
			et := ft.Elem()
			for et.Kind() == reflect.Ptr {
				et = et.Elem()
			}
			if et.Kind() == reflect.Struct && !isLeafType(et) {
				for _, nd := range junkDocs(et, isJSON, junk, depth-1) {
					out = append(out, obj(f.name, obj(peer.Encode(p1), nd)))
				}
			} else {
				for _, j := range junk {
					out = append(out, obj(f.name, obj("k", j)))
				}
			}
		}
	}
	return out
}

var typeByName = map[string]reflect.Type{}

func TestDecodersOnTypedJunk(t *testing.T) {
	sec := R.Sec("decoders/typed-junk")
	mj, jj := msgpackJunk(), jsonJunk()
	sec.Bounds["msgpack_junk_values"] = len(mj)
	sec.Bounds["json_junk_values"] = len(jj)
	sec.Bounds["nesting_depth"] = 2
	sec.Bounds["shape"] = "each document is the record with exactly one field (top level or nested up to depth 2) replaced by one junk value; plus junk in place of the whole record"
	per := map[string]int{}
	for _, d := range allDecoders() {
		var rt reflect.Type
		v, err := d.decode(d.corpus[0])
		if err != nil || v == nil {
			if d.codec != "msgpack" && d.codec != "json" && d.codec != "msgpack-raft" {
				continue
			}
			t.Fatalf("harness: %s cannot decode its own first corpus entry: %v", d.name(), err)
		}
		rt = reflect.TypeOf(v)
		var docs [][]byte
		switch d.codec {
		case "msgpack", "msgpack-raft":
			docs = junkDocs(rt, false, mj, 2)
		case "json":
			docs = junkDocs(rt, true, jj, 2)
		default:
			continue
		}
		seen := map[string]struct{}{}
		var uniq [][]byte
		for _, x := range docs {
			if _, ok := seen[string(x)]; !ok {
				seen[string(x)] = struct{}{}
				uniq = append(uniq, x)
			}
		}
		per[d.name()] = len(uniq)
		feedAll(sec, d, "junk", len(uniq), func(i int) []byte { return uniq[i] })
	}
	sec.Bounds["documents_per_decoder"] = per
}

// ---- query strings ----

var queryKeys = []string{"replication", "replication-min", "replication-max", "name", "mode", "shard-size",
	"user-allocations", "expire-at", "expire-in", "meta-", "meta-x", "pin-update", "origins",
	"layout", "chunker", "hash", "format", "local", "recursive", "hidden", "wrap-with-directory", "shard", "progress",
	"cid-version", "raw-leaves", "stream-channels", "nocopy"}

func queryValues() []string {
	return []string{"", "0", "-1", "1", "abc", "true", "1e9", "99999999999999999999", "-9223372036854775808", ",", ",,", "/",
		"/ip4", "/ip4/1.2.3.4", "/p2p/", "/ip4/1.2.3.4/tcp/1/p2p/", ma1.String(), ma1.String() + ",", ma1.String() + ",/ip4",
		"Qm", cidV0.String(), cidV1.String(), "bafy", "\x00", "%", "%zz", "2026-03-04T05:06:07Z", "2026-13-40T00:00:00Z",
		"2026-03-04T05:06:07.999999999+02:00", "1s", "1ns", "-5h", "999999999h", "2562047h47m16.854775807s", " ", "ü",
		peer.Encode(p1), peer.Encode(p1) + ",x,," + peer.Encode(p2), "recursive", "direct", "trickle", "car"}
}

func TestQueryDecoders(t *testing.T) {
	sec := R.Sec("decoders/query-strings")
	vals := queryValues()
	type kv struct{ k, v string }
	var singles []kv
	for _, k := range queryKeys {
		for _, v := range vals {
			singles = append(singles, kv{k, v})
		}
	}
	sec.Bounds["keys"] = len(queryKeys)
	sec.Bounds["values"] = len(vals)
	sec.Bounds["shape"] = "every key=value alone, and every unordered pair of (key,value) assignments with different keys"
	n1 := len(singles)
	total := n1 + n1*n1
	decoders := []struct {
		name string
		f    func(q url.Values) (func() error, error)
	}{
		{"PinOptions.FromQuery", func(q url.Values) (func() error, error) {
			o := &api.PinOptions{}
			err := o.FromQuery(q)
			return func() error { _, e := o.ToQuery(); return e }, err
		}},
		{"AddParamsFromQuery", func(q url.Values) (func() error, error) {
			p, err := api.AddParamsFromQuery(q)
			return func() error { _, e := p.ToQueryString(); return e }, err
		}},
	}
	for _, d := range decoders {
		d := d
		cnt := newCounter()
		parallelW(total, func(w, i int) {
			q := url.Values{}
			var desc string
			if i < n1 {
				q.Set(singles[i].k, singles[i].v)
			} else {
				a, b := singles[(i-n1)/n1], singles[(i-n1)%n1]
				if a.k >= b.k {
					return // unordered pairs of different keys, once
				}
				q.Set(a.k, a.v)
				q.Set(b.k, b.v)
			}
			desc = q.Encode()
			var re func() error
			var err error
			class := "value"
			if p, val, st := guard(func() { re, err = d.f(q) }); p {
				class = "decode-panic"
				R.Violation("C08|query|"+d.name+"|decode-panic|"+panicSite(st), map[string]interface{}{
					"query": desc, "panic": val, "stack": st})
			} else if err != nil {
				class = "error"
			} else {
				var rerr error
				if p, val, st := guard(func() { rerr = re() }); p {
					class = "reencode-panic"
					R.Violation("C08|query|"+d.name+"|reencode-panic|"+panicSite(st), map[string]interface{}{
						"query": desc, "panic": val, "stack": st})
				} else if rerr != nil {
					class = "reencode-error"
					R.Violation("C08|query|"+d.name+"|reencode-error|"+errClass(rerr), map[string]interface{}{
						"query": desc, "error": rerr.Error()})
				}
			}
			keys := make([]string, 0, 2)
			for k := range q {
				keys = append(keys, k)
			}
			if len(keys) == 2 && keys[0] > keys[1] {
				keys[0], keys[1] = keys[1], keys[0]
			}
			cnt.add(w, d.name+"|"+strings.Join(keys, "&")+"|"+class)
		})
		sigs := cnt.merged()
		for _, k := range sortedKeys(sigs) {
			c := sigs[k]
			for j := 0; j < c; j++ {
				R.Eval(sec, k, true)
				R.Outcome(sec, d.name+":"+k[strings.LastIndex(k, "|")+1:])
			}
		}
	}
}

// ---- string parsers ----

func TestStringParsers(t *testing.T) {
	sec := R.Sec("decoders/string-forms")
	names := []string{"undefined", "cluster_error", "pin_error", "unpin_error", "error", "pinned", "pinning", "unpinning",
		"unpinned", "remote", "pin_queued", "unpin_queued", "queued", "sharded", "unexpectedly_unpinned",
		"pin", "meta-pin", "clusterdag-pin", "shard-pin", "all", "bad-type", "recursive", "direct", "indirect",
		"indirect through " + cidV0.String(), "pinned,error", "pinned, queued ,x", ma1.String(), ma3.String(), "/ip4/1.2.3.4"}
	var inputs []string
	seen := map[string]struct{}{}
	add := func(s string) {
		if _, ok := seen[s]; !ok {
			seen[s] = struct{}{}
			inputs = append(inputs, s)
		}
	}
	for _, n := range names {
		add(n)
		var muts [][]byte
		mutants([]byte(n), map[string]struct{}{}, &muts)
		for _, m := range muts {
			add(string(m))
		}
	}
	maxLen := 2
	for l := 0; l <= maxLen; l++ {
		n := 1
		for k := 0; k < l; k++ {
			n *= 256
		}
		for i := 0; i < n; i++ {
			b := make([]byte, l)
			x := i
			for k := l - 1; k >= 0; k-- {
				b[k] = byte(x % 256)
				x /= 256
			}
			add(string(b))
		}
	}
	sec.Bounds["inputs"] = len(inputs)
	sec.Bounds["shape"] = "all byte strings of length <= 2, every documented name and every 1-edit corruption of it"
	parsers := []struct {
		name string
		f    func(s string) error
	}{
		{"TrackerStatusFromString", func(s string) error {
			st := api.TrackerStatusFromString(s)
			_ = st.String()
			_, err := json.Marshal(st)
			return err
		}},
		{"PinTypeFromString", func(s string) error { _ = api.PinTypeFromString(s).String(); return nil }},
		{"PinModeFromString", func(s string) error {
			m := api.PinModeFromString(s)
			_ = m.String()
			_ = m.ToPinDepth()
			_, err := json.Marshal(m)
			return err
		}},
		{"IPFSPinStatusFromString", func(s string) error {
			st := api.IPFSPinStatusFromString(s)
			_ = st.ToTrackerStatus()
			_ = st.IsPinned(-1)
			return nil
		}},
		{"NewMultiaddr", func(s string) error {
			m, err := api.NewMultiaddr(s)
			if err != nil {
				return nil
			}
			_ = m.String()
			if _, err := m.MarshalJSON(); err != nil {
				return err
			}
			_, err = m.MarshalBinary()
			return err
		}},
		{"StringsToPeers", func(s string) error {
			_ = api.PeersToStrings(api.StringsToPeers(strings.Split(s, ",")))
			return nil
		}},
	}
	for _, p := range parsers {
		p := p
		cnt := newCounter()
		parallelW(len(inputs), func(w, i int) {
			s := inputs[i]
			var err error
			class := "ok"
			if pan, val, st := guard(func() { err = p.f(s) }); pan {
				class = "panic"
				R.Violation("C08|string|"+p.name+"|panic|"+panicSite(st), map[string]interface{}{
					"input": fmt.Sprintf("%q", s), "panic": val, "stack": st})
			} else if err != nil {
				class = "reencode-error"
				R.Violation("C08|string|"+p.name+"|reencode-error|"+errClass(err), map[string]interface{}{
					"input": fmt.Sprintf("%q", s), "error": err.Error()})
			}
			cnt.add(w, p.name+"|"+fmt.Sprintf("len%d", len(s))+"|"+class)
		})
		sigs := cnt.merged()
		for _, k := range sortedKeys(sigs) {
			c := sigs[k]
			for j := 0; j < c; j++ {
				R.Eval(sec, k, !strings.Contains(k, "|len0|"))
				R.Outcome(sec, p.name+":"+k[strings.LastIndex(k, "|")+1:])
			}
		}
	}
}

var _ = ev.JSON
