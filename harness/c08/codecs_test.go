package c08

import (
	"bytes"
	"encoding/json"
	"io"

	libp2praft "github.com/libp2p/go-libp2p-raft"
	"github.com/ugorji/go/codec"
)

// Msgpack exactly as the system configures it:
//   go-libp2p-gorpc stream_wrap.go:   h := &codec.MsgpackHandle{}  (stream based Encoder/Decoder)
//   state/dsstate DefaultHandle():    &codec.MsgpackHandle{}
//   go-libp2p-raft codec.go:          encode: &codec.MsgpackHandle{}; decode: ErrorIfNoField = true
var mpHandle = &codec.MsgpackHandle{}

func mpEnc(v interface{}) ([]byte, error) {
	var buf bytes.Buffer
	err := codec.NewEncoder(&buf, mpHandle).Encode(v)
	return buf.Bytes(), err
}

func mpDec(b []byte, v interface{}) error {
	return codec.NewDecoder(bytes.NewReader(b), mpHandle).Decode(v)
}

// raftEnc/raftDec go through the real go-libp2p-raft encode()/decode()
// (EncodeSnapshot/DecodeSnapshot are thin exported wrappers around the same
// functions encodeOp/decodeOp use; consensus.State is interface{}).
func raftEnc(v interface{}) ([]byte, error) {
	var buf bytes.Buffer
	err := libp2praft.EncodeSnapshot(v, &buf)
	return buf.Bytes(), err
}

func raftDec(b []byte, v interface{}) error {
	return libp2praft.DecodeSnapshot(v, bytes.NewReader(b))
}

// JSON as the REST API writes/reads it (json.NewEncoder(w).Encode /
// json.NewDecoder(r).Decode) which is also what exportState/importState do.
func jsEnc(v interface{}) ([]byte, error) {
	var buf bytes.Buffer
	err := json.NewEncoder(&buf).Encode(v)
	return buf.Bytes(), err
}

func jsDec(b []byte, v interface{}) error {
	dec := json.NewDecoder(bytes.NewReader(b))
	err := dec.Decode(v)
	if err == io.EOF {
		return io.ErrUnexpectedEOF
	}
	return err
}

func mpCodec[T any]() codecT[T] {
	return codecT[T]{
		name: "msgpack",
		enc:  func(v *T) ([]byte, error) { return mpEnc(v) },
		dec:  func(b []byte) (*T, error) { v := new(T); err := mpDec(b, v); return v, err },
	}
}

func jsCodec[T any]() codecT[T] {
	return codecT[T]{
		name: "json",
		enc:  func(v *T) ([]byte, error) { return jsEnc(v) },
		dec:  func(b []byte) (*T, error) { v := new(T); err := jsDec(b, v); return v, err },
	}
}
