package c08

import (
	"context"
	"testing"

	"github.com/ipfs/ipfs-cluster/api"
	rpc "github.com/libp2p/go-libp2p-gorpc"
	mocknet "github.com/libp2p/go-libp2p/p2p/net/mock"
)

// Echo is served over a real go-libp2p-gorpc server: every argument and every
// reply crosses a libp2p stream through gorpc's own msgpack encoder/decoder.
type Echo struct{}

func (Echo) Pin(ctx context.Context, in *api.Pin, out *api.Pin) error             { *out = *in; return nil }
func (Echo) PinPath(ctx context.Context, in *api.PinPath, out *api.PinPath) error { *out = *in; return nil }
func (Echo) PinInfo(ctx context.Context, in *api.PinInfo, out *api.PinInfo) error { *out = *in; return nil }
func (Echo) GlobalPinInfo(ctx context.Context, in *api.GlobalPinInfo, out *api.GlobalPinInfo) error {
	*out = *in
	return nil
}
func (Echo) ID(ctx context.Context, in *api.ID, out *api.ID) error             { *out = *in; return nil }
func (Echo) Metric(ctx context.Context, in *api.Metric, out *api.Metric) error { *out = *in; return nil }
func (Echo) Alert(ctx context.Context, in *api.Alert, out *api.Alert) error    { *out = *in; return nil }
func (Echo) AddParams(ctx context.Context, in *api.AddParams, out *api.AddParams) error {
	*out = *in
	return nil
}
func (Echo) RepoGC(ctx context.Context, in *api.RepoGC, out *api.RepoGC) error { *out = *in; return nil }
func (Echo) ConnectGraph(ctx context.Context, in *api.ConnectGraph, out *api.ConnectGraph) error {
	*out = *in
	return nil
}
func (Echo) NodeWithMeta(ctx context.Context, in *api.NodeWithMeta, out *api.NodeWithMeta) error {
	*out = *in
	return nil
}

func TestGorpcEcho(t *testing.T) {
	ctx := context.Background()
	mn, err := mocknet.FullMeshConnected(ctx, 2)
	if err != nil {
		t.Fatal(err)
	}
	hs := mn.Hosts()
	defer func() {
		for _, h := range hs {
			h.Close()
		}
	}()
	srv := rpc.NewServer(hs[0], "/c08/echo/1")
	if err := srv.RegisterName("Echo", Echo{}); err != nil {
		t.Fatal(err)
	}
	cl := rpc.NewClient(hs[1], "/c08/echo/1")
	dest := hs[0].ID()

	echo := func(method string) func(in, out interface{}) error {
		return func(in, out interface{}) error { return cl.CallContext(ctx, dest, "Echo", method, in, out) }
	}
	runEcho(t, pinSpace(), echo("Pin"))
	runEcho(t, pinPathSpace(), echo("PinPath"))
	runEcho(t, pinInfoSpace(), echo("PinInfo"))
	runEcho(t, globalPinInfoSpace(), echo("GlobalPinInfo"))
	runEcho(t, idSpace(), echo("ID"))
	runEcho(t, metricSpace(), echo("Metric"))
	runEcho(t, alertSpace(), echo("Alert"))
	runEcho(t, addParamsSpace(), echo("AddParams"))
	runEcho(t, repoGCSpace(), echo("RepoGC"))
	runEcho(t, connectGraphSpace(), echo("ConnectGraph"))
	runEcho(t, nodeWithMetaSpace(), echo("NodeWithMeta"))
}

func runEcho[T any](t *testing.T, s *space[T], call func(in, out interface{}) error) {
	c := codecT[T]{name: "gorpc-stream",
		enc: func(v *T) ([]byte, error) { return []byte{1}, nil },
	}
	// The value cannot travel through enc's []byte: round trip inside dec
	// using a per-call closure.
	sec := R.Sec("roundtrip-gorpc/" + s.typ)
	vecs := s.devs(1)
	sec.Bounds["values"] = len(vecs)
	sec.Bounds["mode"] = "base value + every single-field deviation, each sent and returned over a real gorpc stream (mocknet)"
	for _, idx := range vecs {
		idx := idx
		c.dec = func([]byte) (*T, error) {
			out := new(T)
			err := call(s.build(idx), out)
			return out, err
		}
		r := roundTrip(s, c, idx)
		obs := "ok"
		switch {
		case r.stage != "":
			obs = r.stage
		case len(r.paths) > 0:
			obs = "mismatch"
		}
		R.Outcome(sec, obs)
		R.Eval(sec, s.typ+"|gorpc-stream|"+s.describe(idx)+"|"+obs, !isZeroDeep(s.build(idx)))
		if obs == "ok" {
			continue
		}
		field := s.mask(idx)
		if field == "" {
			field = "base-value"
		}
		detail := map[string]interface{}{"type": s.typ, "choices": s.describe(idx), "value": render(s.build(idx)),
			"observed": r.stage + " " + r.msg, "mismatching_fields": r.paths}
		if r.stage != "" {
			R.Violation("C08|gorpc-stream|"+s.typ+"|"+field+"|"+r.stage, detail)
			continue
		}
		for _, p := range r.paths {
			R.Violation("C08|gorpc-stream|"+s.typ+"|"+p+"|mismatch", detail)
		}
	}
}
