package c08

import (
	"context"
	"encoding/json"
	"reflect"
	"errors"
	"fmt"
	"net/url"
	"strings"
	"sync"
	"testing"
	"time"

	ds "github.com/ipfs/go-datastore"
	"github.com/ipfs/ipfs-cluster/api"
	craft "github.com/ipfs/ipfs-cluster/consensus/raft"
	"github.com/ipfs/ipfs-cluster/datastore/inmem"
	"github.com/ipfs/ipfs-cluster/state/dsstate"

	"verif/harness/lib/ev"
)

// rtResult of one (value, codec) round trip.
type rtResult struct {
	stage   string // "", "encode-panic", "encode-error", "decode-panic", "decode-error"
	msg     string
	stack   string
	paths   []string // mismatching comparator paths (judged)
	skipped []string // outcome labels of unjudged paths
	encLen  int
}

func roundTrip[T any](s *space[T], c codecT[T], idx []int) rtResult {
	var r rtResult
	v := s.build(idx)
	var b []byte
	var err error
	if p, val, st := guard(func() { b, err = c.enc(v) }); p {
		return rtResult{stage: "encode-panic", msg: val, stack: st}
	}
	if err != nil {
		return rtResult{stage: "encode-error", msg: errClass(err)}
	}
	r.encLen = len(b)
	var got *T
	if p, val, st := guard(func() { got, err = c.dec(b) }); p {
		return rtResult{stage: "decode-panic", msg: val, stack: st, encLen: len(b)}
	}
	if err != nil {
		return rtResult{stage: "decode-error", msg: errClass(err), encLen: len(b)}
	}
	// expected value: a fresh copy of the input with the documented loss applied
	exp := s.build(idx)
	if c.lossy != nil {
		c.lossy(exp)
	}
	// the codec must not have modified its input either
	if d := diffValues(s.build(idx), v); len(d) > 0 {
		for _, p := range d {
			r.paths = append(r.paths, p+"#input-mutated")
		}
	}
	for _, p := range diffValues(exp, got) {
		if c.unjudged != nil {
			if lbl := c.unjudged(s.build(idx), p); lbl != "" {
				r.skipped = append(r.skipped, lbl)
				continue
			}
		}
		r.paths = append(r.paths, p)
	}
	return r
}

// attribute finds which field choice(s) of a failing vector make the stage
// fail on their own (base value + that single field), for a narrow key.
func attribute[T any](s *space[T], c codecT[T], idx []int, stage string) string {
	var culprits []string
	nonBase := 0
	for k := range s.fields {
		if idx[k] == 0 {
			continue
		}
		nonBase++
		one := make([]int, len(idx))
		one[k] = idx[k]
		if r := roundTrip(s, c, one); r.stage == stage {
			name := s.fields[k].name
			if f := s.subs[name]; f != nil {
				name += "." + f(idx[k])
			}
			culprits = append(culprits, name)
		}
	}
	if len(culprits) > 0 {
		return strings.Join(culprits, "+")
	}
	if nonBase == 0 {
		return "base-value"
	}
	return "combination(" + s.mask(idx) + ")"
}

var attrCache sync.Map

func runRoundTrips[T any](t *testing.T, s *space[T], codecs []codecT[T], full bool) {
	runRoundTripsIn(t, "roundtrip/"+s.typ, s, codecs, full)
}

func runRoundTripsIn[T any](t *testing.T, secName string, s *space[T], codecs []codecT[T], full bool) {
	sec := R.Sec(secName)
	n := s.count(full)
	sec.Bounds["field_alphabet_sizes"] = s.bounds()
	sec.Bounds["full_product"] = s.fullSize()
	sec.Bounds["enumerated_values"] = n
	if full {
		sec.Bounds["mode"] = "full product"
	} else {
		sec.Bounds["mode"] = fmt.Sprintf("base value + every deviation of up to %d fields at once (every %d-tuple of field values)", devK(), devK())
		sec.Exhaustive = false
		sec.CapHit = "full product too large for this tier"
		R.NotExhaustive(fmt.Sprintf("%s: every %d-tuple of field values (%d values) instead of the full product (%d values)", secName, devK(), n, s.fullSize()))
	}
	var names []string
	for _, c := range codecs {
		names = append(names, c.name)
	}
	sec.Bounds["codecs"] = names
	collapse := n > 200000
	parallel(n, func(i int) {
		idx := s.at(full, i)
		nontrivial := !isZeroDeep(s.build(idx))
		for _, c := range codecs {
			if c.applies != nil && !c.applies(s.build(idx)) {
				continue
			}
			r := roundTrip(s, c, idx)
			obs := "ok"
			switch {
			case r.stage != "":
				obs = r.stage
			case len(r.paths) > 0:
				obs = "mismatch"
			}
			R.Outcome(sec, c.name+":"+obs)
			for _, l := range r.skipped {
				R.Outcome(sec, c.name+":"+l)
			}
			desc := s.describe(idx)
			if collapse {
				desc = s.mask(idx)
			}
			R.Eval(sec, s.typ+"|"+c.name+"|"+desc+"|"+obs, nontrivial && r.encLen > 0)
			if i%997 == 0 || obs != "ok" {
				R.SampleTagged("roundtrip/"+s.typ+"/"+c.name+"/"+obs, 1, map[string]interface{}{
					"choices": s.describe(idx), "value": render(s.build(idx)), "encoded_len": r.encLen, "observed": obs})
			}
			if obs == "ok" {
				continue
			}
			detail := map[string]interface{}{
				"type": s.typ, "codec": c.name, "choices": s.describe(idx),
				"value": render(s.build(idx)),
			}
			if r.stage != "" {
				ck := s.typ + "|" + c.name + "|" + r.stage + "|" + r.msg + "|" + s.mask(idx)
				var field string
				if v, ok := attrCache.Load(ck); ok {
					field = v.(string)
				} else {
					field = attribute(s, c, idx, r.stage)
					attrCache.Store(ck, field)
				}
				detail["expected"] = "decode(encode(v)) == v up to the documented loss of this codec"
				detail["observed"] = r.stage + ": " + r.msg
				detail["culprit_fields"] = field
				key := "C08|" + c.name + "|" + s.typ + "|" + field + "|" + r.stage
				if strings.HasSuffix(r.stage, "panic") {
					detail["stack"] = r.stack
					key += "|" + panicSite(r.stack)
				}
				R.Violation(key, detail)
				continue
			}
			for _, p := range r.paths {
				d2 := map[string]interface{}{}
				for k, v := range detail {
					d2[k] = v
				}
				exp := s.build(idx)
				if c.lossy != nil {
					c.lossy(exp)
				}
				b, _ := c.enc(s.build(idx))
				got, _ := c.dec(b)
				d2["field"] = p
				d2["expected_value"] = render(exp)
				d2["observed_value"] = render(got)
				pn := p
				if pn == "" {
					pn = "value"
				}
				key := "C08|" + c.name + "|" + s.typ + "|" + pn + "|mismatch"
				if c.classify != nil {
					if cl := c.classify(exp, got, p); cl != "" {
						key += ":" + cl
					}
				}
				R.Violation(key, d2)
			}
		}
	})
}

// render prints a value without going through String() methods of the code
// under test for scalars (TrackerStatus.String iterates a map: unstable).
func render(v interface{}) string {
	rv := reflect.ValueOf(v)
	if rv.Kind() == reflect.Ptr && !rv.IsNil() {
		rv = rv.Elem()
	}
	switch rv.Kind() {
	case reflect.Int, reflect.Int64, reflect.Int32:
		return fmt.Sprintf("%d (0b%b)", rv.Int(), rv.Int())
	case reflect.Uint, reflect.Uint64, reflect.Uint32:
		return fmt.Sprintf("%d (0b%b)", rv.Uint(), rv.Uint())
	}
	if b, err := jsonOf(rv.Interface()); err == nil {
		return string(b)
	}
	return fmt.Sprintf("%+v", rv.Interface())
}

func jsonOf(v interface{}) (b []byte, err error) {
	defer func() {
		if r := recover(); r != nil {
			err = fmt.Errorf("panic")
		}
	}()
	return json.Marshal(v)
}

// ---- codecs specific to pins ----

func truncSec(t time.Time) time.Time {
	if t.IsZero() {
		return t
	}
	return time.Unix(t.Unix(), 0)
}

// specMode is the harness's own statement of the Mode/MaxDepth agreement.
func specMode(d api.PinDepth) api.PinMode {
	if d == 0 {
		return api.PinModeDirect
	}
	return api.PinModeRecursive
}

// protoLoss: what the stored form is documented to lose.
func protoLoss(p *api.Pin) {
	p.UserAllocations = nil              // "transient information (that may not get protobuffed, like UserAllocations)"
	p.ExpireAt = truncSec(p.ExpireAt)    // expiry is stored in seconds
}

func protoUnjudged(orig *api.Pin, path string) string {
	if path == "Mode" && orig.Mode != specMode(orig.MaxDepth) {
		return "mode-rederived"
	}
	return ""
}

func pinCodecs() []codecT[api.Pin] {
	ctx := context.Background()
	proto := codecT[api.Pin]{name: "protobuf",
		enc:   func(p *api.Pin) ([]byte, error) { return p.ProtoMarshal() },
		dec:   func(b []byte) (*api.Pin, error) { p := &api.Pin{}; err := p.ProtoUnmarshal(b); return p, err },
		lossy: protoLoss, unjudged: protoUnjudged}
	// through the real state: Add then Get / List on an in-memory datastore.
	stateCodec := func(name string, batching, list, viaMarshal bool) codecT[api.Pin] {
		c := codecT[api.Pin]{name: name, lossy: protoLoss, unjudged: protoUnjudged}
		// The "encoding" is the serialized state (Marshal) so that corruption
		// tests can reuse it; decode re-creates a state from it.
		c.enc = func(p *api.Pin) ([]byte, error) {
			store := inmem.New()
			var st *dsstate.State
			var bst *dsstate.BatchingState
			var err error
			if batching {
				bst, err = dsstate.NewBatching(store.(ds.Batching), "/pins", nil)
				if err != nil {
					return nil, err
				}
				st = bst.State
			} else {
				st, err = dsstate.New(store, "/pins", nil)
				if err != nil {
					return nil, err
				}
			}
			if err := st.Add(ctx, p); err != nil {
				return nil, err
			}
			if batching {
				if err := bst.Commit(ctx); err != nil {
					return nil, err
				}
			}
			if !viaMarshal {
				// keep the live state; hand its address through a registry
				return registerState(st), nil
			}
			var sb strings.Builder
			if err := st.Marshal(&sb); err != nil {
				return nil, err
			}
			return append([]byte{0}, sb.String()...), nil
		}
		c.dec = func(b []byte) (*api.Pin, error) {
			var st *dsstate.State
			if viaMarshal {
				var err error
				st, err = dsstate.New(inmem.New(), "/other-namespace", nil)
				if err != nil {
					return nil, err
				}
				if err := st.Unmarshal(strings.NewReader(string(b[1:]))); err != nil {
					return nil, err
				}
			} else {
				st = takeState(b)
			}
			pins, err := st.List(ctx)
			if err != nil {
				return nil, err
			}
			if len(pins) != 1 {
				return nil, fmt.Errorf("List returned %d pins after adding 1", len(pins))
			}
			if list {
				return pins[0], nil
			}
			return st.Get(ctx, pins[0].Cid)
		}
		return c
	}
	return []codecT[api.Pin]{
		proto,
		stateCodec("dsstate-add-get", false, false, false),
		stateCodec("dsstate-add-list", false, true, false),
		stateCodec("dsstate-batching-commit-get", true, false, false),
		stateCodec("dsstate-marshal-unmarshal-list", false, true, true),
		mpCodec[api.Pin](),
		jsCodec[api.Pin](),
	}
}

// state registry for the live-state codecs
var (
	stMu   sync.Mutex
	stReg  = map[uint64]*dsstate.State{}
	stNext uint64
)

func registerState(st *dsstate.State) []byte {
	stMu.Lock()
	defer stMu.Unlock()
	stNext++
	stReg[stNext] = st
	return []byte(fmt.Sprintf("%d", stNext))
}

func takeState(b []byte) *dsstate.State {
	var id uint64
	fmt.Sscanf(string(b), "%d", &id)
	stMu.Lock()
	defer stMu.Unlock()
	st := stReg[id]
	delete(stReg, id)
	return st
}

// ---- query string ----

func dropEmptyMetaKey(o *api.PinOptions) {
	if _, ok := o.Metadata[""]; ok {
		m := map[string]string{}
		for k, v := range o.Metadata {
			if k != "" {
				m[k] = v
			}
		}
		o.Metadata = m
	}
}

func pinOptionsQueryCodec() codecT[api.PinOptions] {
	return codecT[api.PinOptions]{name: "query",
		enc: func(o *api.PinOptions) ([]byte, error) { s, err := o.ToQuery(); return []byte(s), err },
		dec: func(b []byte) (*api.PinOptions, error) {
			q, err := url.ParseQuery(string(b))
			if err != nil {
				return nil, err
			}
			o := &api.PinOptions{}
			err = o.FromQuery(q)
			return o, err
		},
		lossy: dropEmptyMetaKey,
	}
}

func addParamsQueryCodec() codecT[api.AddParams] {
	return codecT[api.AddParams]{name: "query",
		enc: func(o *api.AddParams) ([]byte, error) { s, err := o.ToQueryString(); return []byte(s), err },
		dec: func(b []byte) (*api.AddParams, error) {
			q, err := url.ParseQuery(string(b))
			if err != nil {
				return nil, err
			}
			return api.AddParamsFromQuery(q)
		},
		lossy: func(p *api.AddParams) { dropEmptyMetaKey(&p.PinOptions) },
	}
}

// ---- string forms ----

func strCodec[T any](name string, str func(*T) string, parse func(string) (T, error)) codecT[T] {
	return codecT[T]{name: name,
		enc: func(v *T) ([]byte, error) { return []byte(str(v)), nil },
		dec: func(b []byte) (*T, error) { v, err := parse(string(b)); return &v, err },
	}
}

// ---- raft log op ----

func logOpCodecs() []codecT[craft.LogOp] {
	return []codecT[craft.LogOp]{
		{name: "msgpack-raft",
			enc: func(o *craft.LogOp) ([]byte, error) { return raftEnc(o) },
			dec: func(b []byte) (*craft.LogOp, error) { o := &craft.LogOp{}; err := raftDec(b, o); return o, err }},
		// the FSM decodes every entry on top of the SAME LogOp object, whose
		// Cid was reset to nil by ApplyTo: decode a different op first.
		{name: "msgpack-raft-reused-op",
			enc: func(o *craft.LogOp) ([]byte, error) { return raftEnc(o) },
			dec: func(b []byte) (*craft.LogOp, error) {
				o := &craft.LogOp{}
				prev := &craft.LogOp{Type: craft.LogOpUnpin, Cid: api.PinCid(cidRaw), TagCtx: []byte{7}}
				prev.Cid.Name = "previous"
				pb, err := raftEnc(prev)
				if err != nil {
					return nil, errors.New("harness: cannot encode the previous op")
				}
				if err := raftDec(pb, o); err != nil {
					return nil, errors.New("harness: cannot decode the previous op")
				}
				o.Cid = nil // what LogOp.ApplyTo does
				err = raftDec(b, o)
				return o, err
			},
			// fields absent from the encoding (omitempty) keep the previous
			// op's value: the text is about the pin, and ApplyTo only reads
			// Type and Cid (TagCtx/SpanCtx only when tracing): judge those.
			unjudged: func(orig *craft.LogOp, path string) string {
				if path == "TagCtx" || path == "SpanCtx" {
					return "stale-tracing-field-on-reused-op"
				}
				return ""
			}},
	}
}

var _ = ev.JSON
