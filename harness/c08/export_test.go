package c08

import (
	"bytes"
	"encoding/json"
	"fmt"
	"io"
	"os"
	"path/filepath"
	"testing"

	"github.com/ipfs/ipfs-cluster/api"
	"github.com/ipfs/ipfs-cluster/cmdutils"

	"verif/harness/lib/ev"
)

func scratchDir(t *testing.T, name string) string {
	base := os.Getenv("VERIF_SCRATCH")
	if base == "" {
		base = t.TempDir()
	}
	d := filepath.Join(base, name)
	os.RemoveAll(d)
	if err := os.MkdirAll(d, 0o700); err != nil {
		t.Fatal(err)
	}
	return d
}

// newStateManager builds the real cmdutils StateManager (the object behind
// `ipfs-cluster-service state export|import`) on a scratch configuration.
func newStateManager(t *testing.T, dir, consensus, datastore string) (cmdutils.StateManager, func()) {
	ch := cmdutils.NewConfigHelper(filepath.Join(dir, "service.json"), filepath.Join(dir, "identity.json"), consensus, datastore)
	if err := ch.Manager().Default(); err != nil {
		t.Fatal(err)
	}
	if err := ch.Identity().Default(); err != nil {
		t.Fatal(err)
	}
	if err := ch.SaveConfigToDisk(); err != nil {
		t.Fatal(err)
	}
	if err := ch.SaveIdentityToDisk(); err != nil {
		t.Fatal(err)
	}
	sm, err := cmdutils.NewStateManagerWithHelper(ch)
	if err != nil {
		t.Fatal(err)
	}
	return sm, func() { ch.Manager().Shutdown() }
}

// exportFormat writes pins the way exportState does (json.Encoder, one per line).
func exportFormat(pins []*api.Pin) ([]byte, error) {
	var buf bytes.Buffer
	enc := json.NewEncoder(&buf)
	for _, p := range pins {
		if err := enc.Encode(p); err != nil {
			return nil, err
		}
	}
	return buf.Bytes(), nil
}

func parseExport(b []byte) ([]*api.Pin, error) {
	dec := json.NewDecoder(bytes.NewReader(b))
	var out []*api.Pin
	for {
		var p api.Pin
		err := dec.Decode(&p)
		if err == io.EOF {
			return out, nil
		}
		if err != nil {
			return out, err
		}
		out = append(out, &p)
	}
}

// TestExportImport drives `state import` then `state export` of the real
// StateManagers (raft: JSON -> protobuf -> msgpack snapshot -> protobuf -> JSON;
// crdt: JSON -> protobuf in LevelDB -> JSON).
func TestExportImport(t *testing.T) {
	s := pinSpace()
	type backend struct{ consensus, datastore string }
	backends := []backend{{"raft", ""}, {"crdt", "leveldb"}}
	if ev.Thorough() {
		backends = append(backends, backend{"crdt", "badger"})
	}
	for _, be := range backends {
		name := "export-import/" + be.consensus + be.datastore
		sec := R.Sec(name)
		codecName := "json-import-export(" + be.consensus
		if be.datastore != "" {
			codecName += "," + be.datastore
		}
		codecName += ")"

		// (1) bulk: every enumerated pin that the JSON form can carry, each under a unique CID
		var idxs [][]int
		var pins []*api.Pin
		origIdx := -1
		for k, f := range s.fields {
			if f.name == "Origins" {
				origIdx = k
			}
		}
		bulk := s.devs(2)
		for i := 0; i < len(bulk); i++ {
			idx := bulk[i]
			if len(originsChoice(idx[origIdx])) > 0 {
				continue // judged one by one below
			}
			p := s.build(idx)
			p.Cid = uniqueCid(p.Cid, len(pins))
			idxs = append(idxs, idx)
			pins = append(pins, p)
		}
		sec.Bounds["bulk_pins"] = len(pins)
		input, err := exportFormat(pins)
		if err != nil {
			t.Fatal("harness: cannot write export format:", err)
		}
		dir := scratchDir(t, "c08-"+be.consensus+be.datastore+"-bulk")
		sm, done := newStateManager(t, dir, be.consensus, be.datastore)
		var out bytes.Buffer
		var ierr, eerr error
		if p, val, st := guard(func() {
			ierr = sm.ImportState(bytes.NewReader(input))
			if ierr == nil {
				eerr = sm.ExportState(&out)
			}
		}); p {
			R.Violation("C08|"+codecName+"|Pin|bulk|panic|"+panicSite(st), map[string]interface{}{"panic": val, "stack": st})
		}
		done()
		os.RemoveAll(dir)
		if ierr != nil || eerr != nil {
			R.Violation("C08|"+codecName+"|Pin|bulk|error", map[string]interface{}{
				"import_error": fmt.Sprint(ierr), "export_error": fmt.Sprint(eerr), "pins": len(pins)})
		} else {
			got, perr := parseExport(out.Bytes())
			if perr != nil {
				R.Violation("C08|"+codecName+"|Pin|bulk|export-unparsable", map[string]interface{}{"error": perr.Error()})
			}
			byCid := map[string]*api.Pin{}
			for _, g := range got {
				byCid[g.Cid.KeyString()] = g
			}
			if len(got) != len(pins) {
				R.Violation("C08|"+codecName+"|Pin|bulk|pin-count", map[string]interface{}{"imported": len(pins), "exported": len(got)})
			}
			for k, p := range pins {
				exp := s.build(idxs[k])
				exp.Cid = p.Cid
				protoLoss(exp)
				g := byCid[p.Cid.KeyString()]
				obs := "ok"
				if g == nil {
					obs = "missing"
					R.Violation("C08|"+codecName+"|Pin|missing-after-import", map[string]interface{}{"choices": s.describe(idxs[k])})
				} else {
					for _, path := range diffValues(exp, g) {
						if protoUnjudged(p, path) != "" {
							R.Outcome(sec, "mode-rederived")
							continue
						}
						obs = "mismatch"
						R.Violation("C08|"+codecName+"|Pin|"+path+"|mismatch", map[string]interface{}{
							"choices": s.describe(idxs[k]), "expected_value": render(exp), "observed_value": render(g)})
					}
				}
				R.Outcome(sec, obs)
				R.Eval(sec, "Pin|"+codecName+"|"+s.describe(idxs[k])+"|"+obs, true)
			}
		}

		// (2) one by one: base + every single-field deviation (includes origins)
		single := 0
		for i := 0; i < len(bulk); i++ {
			idx := bulk[i]
			nz := 0
			for _, x := range idx {
				if x != 0 {
					nz++
				}
			}
			if nz > 1 || (nz == 1 && len(originsChoice(idx[origIdx])) == 0 && !ev.Thorough()) {
				continue
			}
			single++
			p := s.build(idx)
			input, err := exportFormat([]*api.Pin{p})
			if err != nil {
				t.Fatal(err)
			}
			dir := scratchDir(t, fmt.Sprintf("c08-%s%s-%d", be.consensus, be.datastore, i))
			sm, done := newStateManager(t, dir, be.consensus, be.datastore)
			out.Reset()
			ierr, eerr = nil, nil
			pan, val, st := guard(func() {
				ierr = sm.ImportState(bytes.NewReader(input))
				if ierr == nil {
					eerr = sm.ExportState(&out)
				}
			})
			done()
			os.RemoveAll(dir)
			obs := "ok"
			field := s.mask(idx)
			if field == "" {
				field = "base-value"
			}
			switch {
			case pan:
				obs = "panic"
				R.Violation("C08|"+codecName+"|Pin|"+field+"|panic|"+panicSite(st), map[string]interface{}{
					"choices": s.describe(idx), "panic": val, "stack": st, "input": string(input)})
			case ierr != nil:
				obs = "import-error"
				R.Violation("C08|"+codecName+"|Pin|"+field+"|import-error", map[string]interface{}{
					"choices": s.describe(idx), "input": string(input), "error": errClass(ierr),
					"expected": "a pin written in the export format can be imported again"})
			case eerr != nil:
				obs = "export-error"
				R.Violation("C08|"+codecName+"|Pin|"+field+"|export-error", map[string]interface{}{
					"choices": s.describe(idx), "error": errClass(eerr)})
			default:
				got, perr := parseExport(out.Bytes())
				if perr != nil || len(got) != 1 {
					obs = "export-unparsable"
					R.Violation("C08|"+codecName+"|Pin|"+field+"|export-unparsable", map[string]interface{}{
						"choices": s.describe(idx), "error": fmt.Sprint(perr), "pins": len(got), "output": out.String()})
					break
				}
				exp := s.build(idx)
				protoLoss(exp)
				for _, path := range diffValues(exp, got[0]) {
					if protoUnjudged(p, path) != "" {
						continue
					}
					obs = "mismatch"
					R.Violation("C08|"+codecName+"|Pin|"+path+"|mismatch", map[string]interface{}{
						"choices": s.describe(idx), "expected_value": render(exp), "observed_value": render(got[0])})
				}
			}
			R.Outcome(sec, "single:"+obs)
			R.Eval(sec, "Pin|"+codecName+"|single|"+s.describe(idx)+"|"+obs, true)
		}
		sec.Bounds["single_pins"] = single
	}
}
