package c08
import ("testing"; _ "github.com/ipfs/ipfs-cluster"; _ "github.com/anishathalye/porcupine"; _ "github.com/ipfs/ipfs-cluster/api/rest"; _ "github.com/ipfs/ipfs-cluster/cmdutils")
func TestX(t *testing.T){}
