// Package c08 checks property C08: pins and API records survive every encoding
// boundary, and decoders never crash.
//
// Engine: E3 smallscope (DESIGN.md §2.4): bounded-exhaustive enumeration of
// value alphabets through every codec on the REAL implementation, with the
// harness's own field-by-field comparator as oracle; plus 1-edit corruption /
// short byte strings / typed junk for every decoder.
package c08

import (
	"fmt"
	"regexp"
	"runtime"
	"runtime/debug"
	"sort"
	"strings"
	"sync"
	"testing"

	logging "github.com/ipfs/go-log/v2"

	"verif/harness/lib/ev"
)

// R is the run-wide reporter.
var R *ev.Run

func TestMain(m *testing.M) {
	R = ev.New("C08", "exploration")
	R.Rule("A case is (record type, codec, value): values are enumerated from per-field alphabets " +
		"(quick: the base value and every deviation of up to 3 fields at once = all triples of field values; " +
		"thorough: the full product), encoded and decoded by the real codec and compared field by field by the " +
		"harness comparator after applying the documented loss of that codec to the expected value. Decoder cases are " +
		"(decoder, byte string): every 1-edit corruption of valid encodings, every short byte string, typed junk per field. " +
		"Distinct = different (type, codec, field-choice vector) in quick; in thorough the vector is collapsed to the set of " +
		"non-base fields (conservative undercount). Non-trivial = at least one field differs from the Go zero value " +
		"(round trips) or the input is non-empty (decoders).")
	R.Assume("encoding/json, github.com/ugorji/go/codec (msgpack), google.golang.org/protobuf, go-cid, go-multiaddr and " +
		"go-libp2p-core/peer are the real module versions of /repo's go.mod; the harness calls them the same way the " +
		"system does (gorpc stream_wrap.go: &codec.MsgpackHandle{}; go-libp2p-raft codec.go via EncodeSnapshot/DecodeSnapshot " +
		"which share encode()/decode() with encodeOp/decodeOp: decode handle has ErrorIfNoField=true).")
	R.Assume("A Reference, when present, points to a defined CID. adder/sharding gives the first shard of an add a reference to the " +
		"undefined CID; protobuf and JSON read that back as no reference, the msgpack forms cannot decode it at all (an error, not " +
		"a crash). That value is therefore not in this check's alphabet; what became of it on Raft (the committed entry was dropped) " +
		"is a repaired defect covered by C01/C04 and by the raft-log section here (variant first-shard(ref-undefined)).")
	R.Assume("Well-formed pin: Type is one of the four pin types, replication factors and depth fit int32, strings are valid " +
		"UTF-8, origins carry a /p2p component, peer IDs are non-empty, expiry is the zero time or within +-1h of a frozen " +
		"reference instant (never 1970-01-01T00:00:00Z which the code treats as 'no expiry').")
	R.Assume("PinOptions.Mode is not stored in protobuf but re-derived from MaxDepth (comment in ProtoUnmarshal); the text " +
		"does not list it as lossy, so Mode is compared after protobuf only for pins whose Mode agrees with MaxDepth " +
		"(-1 recursive, 0 direct, >0 recursive); other combinations are counted as outcome 'mode-rederived' and not judged.")
	R.Assume("The query-string form drops the metadata entry with the empty key in both directions and the repository's own " +
		"TestPinOptionsQuery asserts that; PinOptions.Equals ignores that key. The oracle tolerates exactly this loss for " +
		"the query codec only (outcome 'query-empty-meta-key-dropped').")
	logging.SetAllLoggers(logging.LevelFatal)
	debug.SetGCPercent(200)
	ev.Main(m.Run, R)
}

// guard runs f and converts a panic of the code under test into a value.
func guard(f func()) (panicked bool, val string, stack string) {
	defer func() {
		if r := recover(); r != nil {
			panicked = true
			val = fmt.Sprint(r)
			stack = trimStack(string(debug.Stack()))
		}
	}()
	f()
	return
}

var (
	reHex  = regexp.MustCompile(`0x[0-9a-fA-F]+`)
	rePos  = regexp.MustCompile(`\[pos \d+\]`)
	reNum  = regexp.MustCompile(`\d+`)
	reGoID = regexp.MustCompile(`goroutine \d+`)
)

// trimStack keeps the frames of the code under test, without addresses.
func trimStack(s string) string {
	var out []string
	for _, l := range strings.Split(s, "\n") {
		l = strings.TrimSpace(l)
		if l == "" || strings.HasPrefix(l, "goroutine ") {
			continue
		}
		if strings.Contains(l, "verif/harness") || strings.Contains(l, "runtime/debug") || strings.HasPrefix(l, "panic(") ||
			strings.Contains(l, "/runtime/panic.go") || strings.Contains(l, "runtime/debug.Stack") {
			continue
		}
		if strings.HasPrefix(l, "/") {
			continue // file:line lines
		}
		if i := strings.LastIndex(l, "("); i > 0 {
			l = l[:i]
		}
		out = append(out, l)
		if len(out) >= 16 {
			break
		}
	}
	return strings.Join(out, " < ")
}

// panicSite returns the innermost frame inside the code under test (stable part of a key).
func panicSite(stack string) string {
	frames := strings.Split(stack, " < ")
	for _, pref := range [][]string{{"ipfs-cluster"}, {"go-cid", "multiaddr", "libp2p", "go-datastore"}, {"ugorji", "protobuf", "encoding/json"}} {
		for _, f := range frames {
			for _, p := range pref {
				if strings.Contains(f, p) {
					return f
				}
			}
		}
	}
	if stack == "" {
		return "?"
	}
	return frames[0]
}

// errClass normalises an error message into a stable fingerprint.
func errClass(err error) string {
	if err == nil {
		return ""
	}
	s := err.Error()
	s = rePos.ReplaceAllString(s, "[pos N]")
	s = reHex.ReplaceAllString(s, "0xN")
	if len(s) > 160 {
		s = s[:160]
	}
	return s
}

// isMaskedPanic says whether an error returned by a codec is a recovered
// runtime panic (ugorji/go/codec recovers panics in Encode/Decode).
func isMaskedPanic(err error) bool {
	if err == nil {
		return false
	}
	s := err.Error()
	return strings.Contains(s, "runtime error") || strings.Contains(s, "nil pointer") ||
		strings.Contains(s, "index out of range") || strings.Contains(s, "slice bounds")
}

func workers() int {
	n := runtime.NumCPU() / 2
	if n > 8 {
		n = 8
	}
	if n < 2 {
		n = 2
	}
	return n
}

// parallel runs f(i) for i in [0,n) over the worker pool, in chunks.
func parallel(n int, f func(i int)) { parallelW(n, func(_, i int) { f(i) }) }

// parallelW is parallel with the worker number (0..workers()-1) passed along.
func parallelW(n int, f func(w, i int)) {
	w := workers()
	if n < 64 {
		for i := 0; i < n; i++ {
			f(0, i)
		}
		return
	}
	var wg sync.WaitGroup
	var mu sync.Mutex
	next := 0
	chunk := 256
	if n > 1<<20 {
		chunk = 8192
	}
	for k := 0; k < w; k++ {
		wg.Add(1)
		k := k
		go func() {
			defer wg.Done()
			for {
				mu.Lock()
				lo := next
				next += chunk
				mu.Unlock()
				if lo >= n {
					return
				}
				hi := lo + chunk
				if hi > n {
					hi = n
				}
				for i := lo; i < hi; i++ {
					f(k, i)
				}
			}
		}()
	}
	wg.Wait()
}

// counter collects case signatures per worker (no lock in hot loops); the
// cases are reported to the run afterwards, one Eval per case.
type counter struct {
	per []map[string]int
}

func newCounter() *counter {
	c := &counter{per: make([]map[string]int, workers())}
	for i := range c.per {
		c.per[i] = map[string]int{}
	}
	return c
}
func (c *counter) add(w int, sig string) { c.per[w][sig]++ }
func (c *counter) merged() map[string]int {
	m := map[string]int{}
	for _, p := range c.per {
		for k, v := range p {
			m[k] += v
		}
	}
	return m
}
func sortedKeys(m map[string]int) []string {
	keys := make([]string, 0, len(m))
	for k := range m {
		keys = append(keys, k)
	}
	sort.Strings(keys)
	return keys
}

var _ = reNum
var _ = reGoID
