package c08

import (
	"bytes"
	"fmt"
	"reflect"
	"sort"
	"strings"
	"time"

	cid "github.com/ipfs/go-cid"
	peer "github.com/libp2p/go-libp2p-core/peer"
	multiaddr "github.com/multiformats/go-multiaddr"
	"go.opencensus.io/trace"
)

// The harness's own comparator. It walks two values of the same type field by
// field and returns the canonical paths of the fields that differ. Equality of
// leaves is semantic and written here, not borrowed from the code under test:
//   - cid.Cid:             same binary form (undefined == undefined)
//   - peer.ID:             same bytes
//   - time.Time:           same instant (location and monotonic reading ignored)
//   - multiaddr.Multiaddr: both nil, or same binary form
//   - []byte, slices, maps: nil and empty are equal; slices are ordered
//   - pointers:            both nil, or both non-nil and pointees equal
var (
	tCid       = reflect.TypeOf(cid.Cid{})
	tTime      = reflect.TypeOf(time.Time{})
	tPeerID    = reflect.TypeOf(peer.ID(""))
	tMaddrIf   = reflect.TypeOf((*multiaddr.Multiaddr)(nil)).Elem()
	tSpanCtx   = reflect.TypeOf(trace.SpanContext{})
	tByteSlice = reflect.TypeOf([]byte(nil))
)

func diffValues(a, b interface{}) []string {
	var out []string
	diff(reflect.ValueOf(a), reflect.ValueOf(b), "", &out)
	sort.Strings(out)
	return dedup(out)
}

func dedup(s []string) []string {
	var o []string
	for i, x := range s {
		if i == 0 || x != s[i-1] {
			o = append(o, x)
		}
	}
	return o
}

func join(path, f string) string {
	if path == "" {
		return f
	}
	return path + "." + f
}

func diff(a, b reflect.Value, path string, out *[]string) {
	if a.Type() != b.Type() {
		*out = append(*out, path+"#type")
		return
	}
	switch a.Type() {
	case tCid:
		ca, cb := a.Interface().(cid.Cid), b.Interface().(cid.Cid)
		if !bytes.Equal(ca.Bytes(), cb.Bytes()) {
			*out = append(*out, path)
		}
		return
	case tTime:
		ta, tb := a.Interface().(time.Time), b.Interface().(time.Time)
		if ta.IsZero() != tb.IsZero() || ta.UnixNano() != tb.UnixNano() {
			*out = append(*out, path)
		}
		return
	case tPeerID:
		if a.String() != b.String() {
			*out = append(*out, path)
		}
		return
	case tMaddrIf:
		if a.IsNil() || b.IsNil() {
			if a.IsNil() != b.IsNil() {
				*out = append(*out, path+"#nil")
			}
			return
		}
		ma, mb := a.Interface().(multiaddr.Multiaddr), b.Interface().(multiaddr.Multiaddr)
		if !bytes.Equal(ma.Bytes(), mb.Bytes()) {
			*out = append(*out, path)
		}
		return
	case tSpanCtx:
		sa, sb := a.Interface().(trace.SpanContext), b.Interface().(trace.SpanContext)
		if sa.TraceID != sb.TraceID || sa.SpanID != sb.SpanID || sa.TraceOptions != sb.TraceOptions {
			*out = append(*out, path)
		}
		return
	case tByteSlice:
		if !bytes.Equal(a.Bytes(), b.Bytes()) {
			*out = append(*out, path)
		}
		return
	}
	switch a.Kind() {
	case reflect.Struct:
		for i := 0; i < a.NumField(); i++ {
			f := a.Type().Field(i)
			if f.PkgPath != "" { // unexported
				continue
			}
			p := path
			if !f.Anonymous {
				p = join(path, f.Name)
			} else if f.Type.Kind() != reflect.Struct {
				p = join(path, f.Name)
			}
			diff(a.Field(i), b.Field(i), p, out)
		}
	case reflect.Ptr:
		if a.IsNil() || b.IsNil() {
			if a.IsNil() != b.IsNil() {
				*out = append(*out, path+"#nil")
			}
			return
		}
		diff(a.Elem(), b.Elem(), path, out)
	case reflect.Interface:
		if a.IsNil() || b.IsNil() {
			if a.IsNil() != b.IsNil() {
				*out = append(*out, path+"#nil")
			}
			return
		}
		diff(a.Elem(), b.Elem(), path, out)
	case reflect.Slice, reflect.Array:
		if a.Len() != b.Len() {
			*out = append(*out, path+"#len")
			return
		}
		for i := 0; i < a.Len(); i++ {
			diff(a.Index(i), b.Index(i), path+"[]", out)
		}
	case reflect.Map:
		keys := map[string]reflect.Value{}
		for _, k := range a.MapKeys() {
			keys[fmt.Sprint(k.Interface())] = k
		}
		for _, k := range b.MapKeys() {
			keys[fmt.Sprint(k.Interface())] = k
		}
		names := make([]string, 0, len(keys))
		for n := range keys {
			names = append(names, n)
		}
		sort.Strings(names)
		for _, n := range names {
			k := keys[n]
			kp := path + "[*]"
			if n == "" {
				kp = path + `[""]`
			}
			va, vb := a.MapIndex(k), b.MapIndex(k)
			if !va.IsValid() || !vb.IsValid() {
				if !va.IsValid() {
					*out = append(*out, kp+"#added")
				} else {
					*out = append(*out, kp+"#missing")
				}
				continue
			}
			diff(va, vb, kp, out)
		}
	case reflect.Bool:
		if a.Bool() != b.Bool() {
			*out = append(*out, path)
		}
	case reflect.Int, reflect.Int8, reflect.Int16, reflect.Int32, reflect.Int64:
		if a.Int() != b.Int() {
			*out = append(*out, path)
		}
	case reflect.Uint, reflect.Uint8, reflect.Uint16, reflect.Uint32, reflect.Uint64:
		if a.Uint() != b.Uint() {
			*out = append(*out, path)
		}
	case reflect.String:
		if a.String() != b.String() {
			*out = append(*out, path)
		}
	case reflect.Float32, reflect.Float64:
		if a.Float() != b.Float() {
			*out = append(*out, path)
		}
	default:
		*out = append(*out, path+"#unsupported-kind-"+a.Kind().String())
	}
}

// isZeroDeep reports whether v equals the Go zero value of its type under the
// harness comparator (used for the non-triviality rule).
func isZeroDeep(v interface{}) bool {
	rv := reflect.ValueOf(v)
	if rv.Kind() == reflect.Ptr {
		rv = rv.Elem()
	}
	z := reflect.New(rv.Type()).Elem()
	var out []string
	diff(rv, z, "", &out)
	return len(out) == 0
}

// nilMaddrPaths lists the comparator paths at which a decoded value holds a
// nil multiaddr.Multiaddr interface (a hint that narrows re-encode keys).
func nilMaddrPaths(v interface{}) string {
	var out []string
	var walk func(rv reflect.Value, path string, depth int)
	walk = func(rv reflect.Value, path string, depth int) {
		if depth > 8 || !rv.IsValid() {
			return
		}
		if rv.Type() == tMaddrIf {
			if rv.IsNil() {
				out = append(out, path)
			}
			return
		}
		if rv.Type() == tCid || rv.Type() == tTime {
			return
		}
		switch rv.Kind() {
		case reflect.Ptr, reflect.Interface:
			if !rv.IsNil() {
				walk(rv.Elem(), path, depth+1)
			}
		case reflect.Struct:
			for i := 0; i < rv.NumField(); i++ {
				f := rv.Type().Field(i)
				if f.PkgPath != "" {
					continue
				}
				p := path
				if !f.Anonymous || f.Type.Kind() != reflect.Struct {
					p = join(path, f.Name)
				}
				walk(rv.Field(i), p, depth+1)
			}
		case reflect.Slice, reflect.Array:
			for i := 0; i < rv.Len(); i++ {
				walk(rv.Index(i), path+"[]", depth+1)
			}
		case reflect.Map:
			for _, k := range rv.MapKeys() {
				walk(rv.MapIndex(k), path+"[*]", depth+1)
			}
		}
	}
	walk(reflect.ValueOf(v), "", 0)
	sort.Strings(out)
	out = dedup(out)
	if len(out) == 0 {
		return "no-nil-multiaddr"
	}
	return "nil-multiaddr@" + strings.Join(out, ",")
}
