package c08

import (
	"fmt"

	"verif/harness/lib/ev"
	"sort"
	"strings"
)

// fa is one field alphabet of a record type T: choice 0 is the base choice.
type fa[T any] struct {
	name string
	n    int
	set  func(v *T, i int)
}

// space is the value space of one record type: the product of its field alphabets.
type space[T any] struct {
	typ    string
	fields []fa[T]
	cache  map[int][][]int // cached deviation sets
	// subs optionally names the sub-field a choice of a composite field deviates in
	subs map[string]func(i int) string
}

func (s *space[T]) build(idx []int) *T {
	v := new(T)
	for k, f := range s.fields {
		f.set(v, idx[k])
	}
	return v
}

func (s *space[T]) fullSize() int {
	n := 1
	for _, f := range s.fields {
		n *= f.n
		if n > 1<<40 {
			return 1 << 40
		}
	}
	return n
}

// quickDev is the number of fields that deviate from the base value at once
// in the quick tier: 3 covers every triple of field values.
const quickDev = 3

// devK: thorough uses 4-field deviations for the spaces whose full product is not affordable.
func devK() int {
	if ev.Thorough() {
		return 4
	}
	return quickDev
}

// devs returns base and every deviation of at most k fields from it (all
// non-base choices of those fields): it contains every k-tuple of field values.
func (s *space[T]) devs(k int) [][]int {
	if s.cache == nil {
		s.cache = map[int][][]int{}
	}
	if v, ok := s.cache[k]; ok {
		return v
	}
	nf := len(s.fields)
	var out [][]int
	cur := make([]int, nf)
	var rec func(from, left int)
	rec = func(from, left int) {
		out = append(out, append([]int{}, cur...))
		if left == 0 {
			return
		}
		for i := from; i < nf; i++ {
			for a := 1; a < s.fields[i].n; a++ {
				cur[i] = a
				rec(i+1, left-1)
			}
			cur[i] = 0
		}
	}
	rec(0, k)
	s.cache[k] = out
	return out
}

// pairVectors: base + all 1- and 2-field deviations.
func (s *space[T]) pairVectors() [][]int { return s.devs(2) }

// count/at give the enumeration in the requested mode.
func (s *space[T]) count(full bool) int {
	if full {
		return s.fullSize()
	}
	return len(s.devs(devK()))
}

func (s *space[T]) at(full bool, i int) []int {
	if !full {
		return s.devs(devK())[i]
	}
	idx := make([]int, len(s.fields))
	for k := len(s.fields) - 1; k >= 0; k-- {
		idx[k] = i % s.fields[k].n
		i /= s.fields[k].n
	}
	return idx
}

// describe renders a choice vector as "Field=choice" for the non-base fields.
func (s *space[T]) describe(idx []int) string {
	var parts []string
	for k, f := range s.fields {
		if idx[k] != 0 {
			parts = append(parts, fmt.Sprintf("%s=%d", f.name, idx[k]))
		}
	}
	if len(parts) == 0 {
		return "base"
	}
	return strings.Join(parts, ",")
}

func (s *space[T]) mask(idx []int) string {
	var parts []string
	for k, f := range s.fields {
		if idx[k] != 0 {
			parts = append(parts, f.name)
		}
	}
	sort.Strings(parts)
	return strings.Join(parts, "+")
}

func (s *space[T]) bounds() map[string]int {
	m := map[string]int{}
	for _, f := range s.fields {
		m[f.name] = f.n
	}
	return m
}

// codecT is one encoding boundary for record type T.
type codecT[T any] struct {
	name string
	enc  func(v *T) ([]byte, error)
	dec  func(b []byte) (*T, error)
	// lossy applies the documented loss of this codec to the EXPECTED value.
	lossy func(v *T)
	// unjudged lists comparator paths on which the property text is silent
	// for this value (returns outcome label, or "" when judged).
	unjudged func(orig *T, path string) string
	// classify optionally refines the key of a mismatch on path.
	classify func(exp, got *T, path string) string
	// applies says whether the value is in the domain of this codec.
	applies func(v *T) bool
}
