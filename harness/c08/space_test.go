package c08

import (
	"fmt"
	"sort"
	"strings"
)

// fa is one field alphabet of a record type T: choice 0 is the base choice.
type fa[T any] struct {
	name string
	n    int
	set  func(v *T, i int)
}

// space is the value space of one record type: the product of its field alphabets.
type space[T any] struct {
	typ    string
	fields []fa[T]
	pairs  [][]int // cached: base + all 1- and 2-field deviations
}

func (s *space[T]) build(idx []int) *T {
	v := new(T)
	for k, f := range s.fields {
		f.set(v, idx[k])
	}
	return v
}

func (s *space[T]) fullSize() int {
	n := 1
	for _, f := range s.fields {
		n *= f.n
		if n > 1<<40 {
			return 1 << 40
		}
	}
	return n
}

// pairVectors returns base, every single-field deviation and every two-field
// deviation: together they contain every pair of field values.
func (s *space[T]) pairVectors() [][]int {
	if s.pairs != nil {
		return s.pairs
	}
	nf := len(s.fields)
	var out [][]int
	out = append(out, make([]int, nf))
	for i := 0; i < nf; i++ {
		for a := 1; a < s.fields[i].n; a++ {
			v := make([]int, nf)
			v[i] = a
			out = append(out, v)
		}
	}
	for i := 0; i < nf; i++ {
		for j := i + 1; j < nf; j++ {
			for a := 1; a < s.fields[i].n; a++ {
				for b := 1; b < s.fields[j].n; b++ {
					v := make([]int, nf)
					v[i], v[j] = a, b
					out = append(out, v)
				}
			}
		}
	}
	s.pairs = out
	return out
}

// count/at give the enumeration in the requested mode.
func (s *space[T]) count(full bool) int {
	if full {
		return s.fullSize()
	}
	return len(s.pairVectors())
}

func (s *space[T]) at(full bool, i int) []int {
	if !full {
		return s.pairVectors()[i]
	}
	idx := make([]int, len(s.fields))
	for k := len(s.fields) - 1; k >= 0; k-- {
		idx[k] = i % s.fields[k].n
		i /= s.fields[k].n
	}
	return idx
}

// describe renders a choice vector as "Field=choice" for the non-base fields.
func (s *space[T]) describe(idx []int) string {
	var parts []string
	for k, f := range s.fields {
		if idx[k] != 0 {
			parts = append(parts, fmt.Sprintf("%s=%d", f.name, idx[k]))
		}
	}
	if len(parts) == 0 {
		return "base"
	}
	return strings.Join(parts, ",")
}

func (s *space[T]) mask(idx []int) string {
	var parts []string
	for k, f := range s.fields {
		if idx[k] != 0 {
			parts = append(parts, f.name)
		}
	}
	sort.Strings(parts)
	return strings.Join(parts, "+")
}

func (s *space[T]) bounds() map[string]int {
	m := map[string]int{}
	for _, f := range s.fields {
		m[f.name] = f.n
	}
	return m
}

// codecT is one encoding boundary for record type T.
type codecT[T any] struct {
	name string
	enc  func(v *T) ([]byte, error)
	dec  func(b []byte) (*T, error)
	// lossy applies the documented loss of this codec to the EXPECTED value.
	lossy func(v *T)
	// unjudged lists comparator paths on which the property text is silent
	// for this value (returns outcome label, or "" when judged).
	unjudged func(orig *T, path string) string
	// applies says whether the value is in the domain of this codec.
	applies func(v *T) bool
}
