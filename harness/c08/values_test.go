package c08

import (
	"crypto/sha256"
	"encoding/binary"
	"math"
	"time"

	cid "github.com/ipfs/go-cid"
	"github.com/ipfs/ipfs-cluster/api"
	craft "github.com/ipfs/ipfs-cluster/consensus/raft"
	peer "github.com/libp2p/go-libp2p-core/peer"
	protocol "github.com/libp2p/go-libp2p-core/protocol"
	multiaddr "github.com/multiformats/go-multiaddr"
	mh "github.com/multiformats/go-multihash"
	"go.opencensus.io/trace"
)

func must[T any](v T, err error) T {
	if err != nil {
		panic(err)
	}
	return v
}

var (
	mh1 = must(mh.Sum([]byte("c08-one"), mh.SHA2_256, -1))
	mh2 = must(mh.Sum([]byte("c08-two"), mh.SHA2_256, -1))
	mhI = must(mh.Sum([]byte{}, mh.IDENTITY, -1))

	cidV0   = cid.NewCidV0(mh1)
	cidV1   = cid.NewCidV1(cid.DagProtobuf, mh1)
	cidRaw  = cid.NewCidV1(cid.Raw, mh2)
	cidIden = cid.NewCidV1(cid.Raw, mhI) // bafkqaaa: the shortest valid CID
	cidV0b  = cid.NewCidV0(mh2)

	p1 = must(peer.Decode("QmXZrtE5jQwXNqCJMfHUTQkvhQ4ZAnqMnmzFMJfLewuabc"))
	p2 = must(peer.Decode("12D3KooWKewdAMAU3WjYHm8qkAJc5eW6KHbHWNigWraXXtE1UCng"))
	p3 = must(peer.Decode("QmUZ13osndQ5uL4tPWHXe3iBgBgq9gfewcBMSCAuMBsDJ6"))

	ma1 = multiaddr.StringCast("/ip4/1.2.3.4/tcp/1234/p2p/12D3KooWKewdAMAU3WjYHm8qkAJc5eW6KHbHWNigWraXXtE1UCng")
	ma2 = multiaddr.StringCast("/dns4/example.com/udp/4001/quic/p2p/QmXZrtE5jQwXNqCJMfHUTQkvhQ4ZAnqMnmzFMJfLewuabc")
	ma3 = multiaddr.StringCast("/ip6/::1/tcp/9096")
	ma4 = multiaddr.StringCast("/ip4/127.0.0.1/tcp/4001/ws")

	refT   = time.Date(2026, 3, 4, 5, 6, 7, 0, time.UTC)
	zoneX  = time.FixedZone("X", 2*3600)
	nastyS = "a b&c=d,e/f?g#h%25+\"\\\n\tü€𝄞;"
)

func times(i int) time.Time {
	switch i {
	case 1:
		return refT.Add(time.Hour)
	case 2:
		return refT.Add(-time.Hour + 123456789*time.Nanosecond)
	case 3:
		return refT.Add(30*time.Minute + 999999999*time.Nanosecond).In(zoneX)
	case 4:
		return time.Unix(-86400*400, 0).UTC() // a whole second before the Unix epoch
	}
	return time.Time{}
}

func cids(i int) cid.Cid {
	switch i {
	case 0:
		return cidV0
	case 1:
		return cidV1
	case 2:
		return cidRaw
	case 3:
		return cidIden
	}
	return cid.Undef
}

func cidPtr(c cid.Cid) *cid.Cid { return &c }

func peersChoice(i int) []peer.ID {
	switch i {
	case 1:
		return []peer.ID{p1}
	case 2:
		return []peer.ID{p3, p2, p1}
	case 3:
		return []peer.ID{}
	}
	return nil
}

func metaChoice(i int) map[string]string {
	switch i {
	case 1:
		return map[string]string{"k": "v"}
	case 2:
		return map[string]string{"": "x"}
	case 3:
		return map[string]string{"": "x", "a": "", "b": nastyS}
	case 4:
		return map[string]string{}
	case 5:
		// keys that look like their own query-string spelling ("meta-<key>")
		return map[string]string{"meta-owner": "alice", "owner": "bob"}
	case 6:
		return map[string]string{"meta-": "v", "x-meta-y": "1", "meta-meta-z": "2"}
	}
	return nil
}

func originsChoice(i int) []multiaddr.Multiaddr {
	switch i {
	case 1:
		return []multiaddr.Multiaddr{ma1}
	case 2:
		return []multiaddr.Multiaddr{ma2, ma1}
	case 3:
		return []multiaddr.Multiaddr{}
	}
	return nil
}

func strChoice(i int) string {
	switch i {
	case 1:
		return "name"
	case 2:
		return nastyS
	}
	return ""
}

// uniqueCid returns a CID of the same version/codec as c, unique for n.
func uniqueCid(c cid.Cid, n int) cid.Cid {
	var b [8]byte
	binary.BigEndian.PutUint64(b[:], uint64(n))
	h := sha256.Sum256(b[:])
	m := must(mh.Encode(h[:], mh.SHA2_256))
	if c.Version() == 0 {
		return cid.NewCidV0(m)
	}
	return cid.NewCidV1(c.Type(), m)
}

// ---- PinOptions fields, reused by Pin, PinPath, AddParams ----

func pinOptFields[T any](po func(*T) *api.PinOptions, withMode, withUpdate bool) []fa[T] {
	f := []fa[T]{
		{"Replication", 3, func(v *T, i int) {
			o := po(v)
			switch i {
			case 1:
				o.ReplicationFactorMin, o.ReplicationFactorMax = -1, -1
			case 2:
				o.ReplicationFactorMin, o.ReplicationFactorMax = 1, 3
			}
		}},
		{"Name", 3, func(v *T, i int) { po(v).Name = strChoice(i) }},
		{"ShardSize", 3, func(v *T, i int) { po(v).ShardSize = []uint64{0, 100 * 1024 * 1024, math.MaxUint64}[i] }},
		{"UserAllocations", 4, func(v *T, i int) { po(v).UserAllocations = peersChoice(i) }},
		{"ExpireAt", 5, func(v *T, i int) { po(v).ExpireAt = times(i) }},
		{"Metadata", 7, func(v *T, i int) { po(v).Metadata = metaChoice(i) }},
		{"Origins", 4, func(v *T, i int) { po(v).Origins = originsChoice(i) }},
	}
	if withUpdate {
		f = append(f, fa[T]{"PinUpdate", 3, func(v *T, i int) {
			if i > 0 {
				po(v).PinUpdate = cids(i - 1)
			}
		}})
	}
	if withMode {
		f = append(f, fa[T]{"Mode", 2, func(v *T, i int) { po(v).Mode = api.PinMode(i) }})
	}
	return f
}

// ---- Pin ----

func pinSpace() *space[api.Pin] {
	s := &space[api.Pin]{typ: "Pin"}
	s.fields = []fa[api.Pin]{
		{"Cid", 4, func(p *api.Pin, i int) { p.Cid = cids(i) }},
		{"Type", 4, func(p *api.Pin, i int) {
			p.Type = []api.PinType{api.DataType, api.MetaType, api.ClusterDAGType, api.ShardType}[i]
		}},
		{"Allocations", 4, func(p *api.Pin, i int) { p.Allocations = peersChoice(i) }},
		// MaxDepth and Mode move together in well-formed pins (PinWithOpts);
		// choice 4 is the one disagreeing combination the system itself
		// creates (sharding cluster-DAG / meta pins: depth 0, mode recursive).
		{"MaxDepth+Mode", 5, func(p *api.Pin, i int) {
			switch i {
			case 0:
				p.MaxDepth, p.Mode = -1, api.PinModeRecursive
			case 1:
				p.MaxDepth, p.Mode = 0, api.PinModeDirect
			case 2:
				p.MaxDepth, p.Mode = 1, api.PinModeRecursive
			case 3:
				p.MaxDepth, p.Mode = 2, api.PinModeRecursive
			case 4:
				p.MaxDepth, p.Mode = 0, api.PinModeRecursive
			}
		}},
		{"Reference", 3, func(p *api.Pin, i int) {
			switch i {
			case 1:
				p.Reference = cidPtr(cidV0b)
			case 2:
				p.Reference = cidPtr(cidV1)
			}
		}},
	}
	s.fields = append(s.fields, pinOptFields(func(p *api.Pin) *api.PinOptions { return &p.PinOptions }, false, true)...)
	return s
}

func pinOptionsSpace() *space[api.PinOptions] {
	return &space[api.PinOptions]{typ: "PinOptions",
		fields: pinOptFields(func(p *api.PinOptions) *api.PinOptions { return p }, true, true)}
}

func pinPathSpace() *space[api.PinPath] {
	s := &space[api.PinPath]{typ: "PinPath"}
	s.fields = append([]fa[api.PinPath]{
		{"Path", 3, func(p *api.PinPath, i int) {
			p.Path = []string{"/ipfs/" + cidV0.String(), "/ipns/example.com/a b/ü", ""}[i]
		}},
	}, pinOptFields(func(p *api.PinPath) *api.PinOptions { return &p.PinOptions }, true, true)...)
	return s
}

func addParamsSpace() *space[api.AddParams] {
	s := &space[api.AddParams]{typ: "AddParams"}
	b := func(name string, get func(*api.AddParams) *bool) fa[api.AddParams] {
		return fa[api.AddParams]{name, 2, func(p *api.AddParams, i int) { *get(p) = i == 1 }}
	}
	s.fields = []fa[api.AddParams]{
		b("Local", func(p *api.AddParams) *bool { return &p.Local }),
		b("Recursive", func(p *api.AddParams) *bool { return &p.Recursive }),
		b("Hidden", func(p *api.AddParams) *bool { return &p.Hidden }),
		b("Wrap", func(p *api.AddParams) *bool { return &p.Wrap }),
		b("Shard", func(p *api.AddParams) *bool { return &p.Shard }),
		b("StreamChannels", func(p *api.AddParams) *bool { return &p.StreamChannels }),
		b("RawLeaves", func(p *api.AddParams) *bool { return &p.RawLeaves }),
		b("Progress", func(p *api.AddParams) *bool { return &p.Progress }),
		b("NoCopy", func(p *api.AddParams) *bool { return &p.NoCopy }),
		{"Format", 3, func(p *api.AddParams, i int) { p.Format = []string{"unixfs", "car", ""}[i] }},
		{"Layout", 3, func(p *api.AddParams, i int) { p.Layout = []string{"", "trickle", "balanced"}[i] }},
		{"Chunker", 2, func(p *api.AddParams, i int) { p.Chunker = []string{"size-262144", "rabin-16-32-64"}[i] }},
		{"CidVersion", 2, func(p *api.AddParams, i int) { p.CidVersion = i }},
		{"HashFun", 2, func(p *api.AddParams, i int) { p.HashFun = []string{"sha2-256", "blake2b-256"}[i] }},
	}
	// PinUpdate is meaningless for adding (AddParamsFromQuery hard-codes it): not varied.
	s.fields = append(s.fields, pinOptFields(func(p *api.AddParams) *api.PinOptions { return &p.PinOptions }, true, false)...)
	return s
}

// ---- status records ----

var singleStatuses = []api.TrackerStatus{
	api.TrackerStatusClusterError, api.TrackerStatusPinError, api.TrackerStatusUnpinError,
	api.TrackerStatusPinned, api.TrackerStatusPinning, api.TrackerStatusUnpinning, api.TrackerStatusUnpinned,
	api.TrackerStatusRemote, api.TrackerStatusPinQueued, api.TrackerStatusUnpinQueued, api.TrackerStatusSharded,
	api.TrackerStatusUnexpectedlyUnpinned,
}

func pinInfoShortFields[T any](g func(*T) *api.PinInfoShort) []fa[T] {
	return []fa[T]{
		{"PeerName", 3, func(v *T, i int) { g(v).PeerName = strChoice(i) }},
		{"Status", len(singleStatuses) + 1, func(v *T, i int) {
			if i > 0 {
				g(v).Status = singleStatuses[i-1]
			}
		}},
		{"TS", 4, func(v *T, i int) { g(v).TS = times(i) }},
		{"Error", 3, func(v *T, i int) { g(v).Error = strChoice(i) }},
	}
}

func pinInfoSpace() *space[api.PinInfo] {
	s := &space[api.PinInfo]{typ: "PinInfo"}
	s.fields = append([]fa[api.PinInfo]{
		{"Cid", 4, func(p *api.PinInfo, i int) { p.Cid = cids(i) }},
		{"Name", 3, func(p *api.PinInfo, i int) { p.Name = strChoice(i) }},
		{"Peer", 2, func(p *api.PinInfo, i int) { p.Peer = []peer.ID{p1, p2}[i] }},
	}, pinInfoShortFields(func(p *api.PinInfo) *api.PinInfoShort { return &p.PinInfoShort })...)
	return s
}

func globalPinInfoSpace() *space[api.GlobalPinInfo] {
	mk := func(i int) *api.PinInfoShort {
		return &api.PinInfoShort{PeerName: strChoice(i % 3), Status: singleStatuses[(i*5)%len(singleStatuses)],
			TS: times(i % 4), Error: strChoice((i + 1) % 3)}
	}
	return &space[api.GlobalPinInfo]{typ: "GlobalPinInfo", fields: []fa[api.GlobalPinInfo]{
		{"Cid", 4, func(p *api.GlobalPinInfo, i int) { p.Cid = cids(i) }},
		{"Name", 3, func(p *api.GlobalPinInfo, i int) { p.Name = strChoice(i) }},
		{"PeerMap", 5, func(p *api.GlobalPinInfo, i int) {
			switch i {
			case 1:
				p.PeerMap = map[string]*api.PinInfoShort{peer.Encode(p1): mk(1)}
			case 2:
				p.PeerMap = map[string]*api.PinInfoShort{peer.Encode(p1): mk(2), peer.Encode(p2): mk(3), peer.Encode(p3): mk(0)}
			case 3:
				p.PeerMap = map[string]*api.PinInfoShort{}
			case 4:
				p.PeerMap = map[string]*api.PinInfoShort{peer.Encode(p2): {}}
			}
		}},
	}}
}

// ---- identity ----

func amaddrs(i int) []api.Multiaddr {
	switch i {
	case 1:
		return []api.Multiaddr{api.NewMultiaddrWithValue(ma3)}
	case 2:
		return []api.Multiaddr{api.NewMultiaddrWithValue(ma1), api.NewMultiaddrWithValue(ma4), api.NewMultiaddrWithValue(ma2)}
	case 3:
		return []api.Multiaddr{}
	}
	return nil
}

func ipfsIDSpace() *space[api.IPFSID] {
	return &space[api.IPFSID]{typ: "IPFSID", fields: []fa[api.IPFSID]{
		// choice 1: the daemon is unreachable: only Error is set (system-produced)
		{"ID", 3, func(p *api.IPFSID, i int) { p.ID = []peer.ID{p1, "", p2}[i] }},
		{"Addresses", 4, func(p *api.IPFSID, i int) { p.Addresses = amaddrs(i) }},
		{"Error", 3, func(p *api.IPFSID, i int) { p.Error = strChoice(i) }},
	}}
}

func idSpace() *space[api.ID] {
	return &space[api.ID]{typ: "ID", fields: []fa[api.ID]{
		{"ID", 2, func(p *api.ID, i int) { p.ID = []peer.ID{p1, p2}[i] }},
		{"Addresses", 4, func(p *api.ID, i int) { p.Addresses = amaddrs(i) }},
		{"ClusterPeers", 4, func(p *api.ID, i int) { p.ClusterPeers = peersChoice(i) }},
		{"ClusterPeersAddresses", 4, func(p *api.ID, i int) { p.ClusterPeersAddresses = amaddrs(i) }},
		{"Version", 3, func(p *api.ID, i int) { p.Version = []string{"", "0.14.0", nastyS}[i] }},
		{"Commit", 2, func(p *api.ID, i int) { p.Commit = []string{"", "abcdef0"}[i] }},
		{"RPCProtocolVersion", 2, func(p *api.ID, i int) { p.RPCProtocolVersion = []protocol.ID{"", "/ipfscluster/0.12/rpc"}[i] }},
		{"Error", 3, func(p *api.ID, i int) { p.Error = strChoice(i) }},
		{"IPFS", 4, func(p *api.ID, i int) {
			switch i {
			case 1:
				p.IPFS = &api.IPFSID{ID: p3, Addresses: amaddrs(2)}
			case 2:
				p.IPFS = &api.IPFSID{Error: "ipfs is down"}
			case 3:
				p.IPFS = &api.IPFSID{ID: p2, Addresses: amaddrs(1), Error: nastyS}
			}
		}},
		{"Peername", 3, func(p *api.ID, i int) { p.Peername = strChoice(i) }},
	}}
}

// ---- metrics / alerts ----

func metricFields[T any](g func(*T) *api.Metric) []fa[T] {
	return []fa[T]{
		{"Name", 3, func(v *T, i int) { g(v).Name = []string{"", "ping", "freespace"}[i] }},
		{"Peer", 2, func(v *T, i int) { g(v).Peer = []peer.ID{p1, p2}[i] }},
		{"Value", 3, func(v *T, i int) { g(v).Value = []string{"", "123456789012", nastyS}[i] }},
		{"Expire", 4, func(v *T, i int) { g(v).Expire = []int64{0, refT.UnixNano(), -1, math.MaxInt64}[i] }},
		{"Valid", 2, func(v *T, i int) { g(v).Valid = i == 1 }},
		{"ReceivedAt", 3, func(v *T, i int) { g(v).ReceivedAt = []int64{0, refT.UnixNano() + 1, math.MinInt64}[i] }},
	}
}

func metricSpace() *space[api.Metric] {
	return &space[api.Metric]{typ: "Metric", fields: metricFields(func(m *api.Metric) *api.Metric { return m })}
}

func alertSpace() *space[api.Alert] {
	s := &space[api.Alert]{typ: "Alert", fields: metricFields(func(a *api.Alert) *api.Metric { return &a.Metric })}
	s.fields = append(s.fields, fa[api.Alert]{"TriggeredAt", 4, func(a *api.Alert, i int) { a.TriggeredAt = times(i) }})
	return s
}

// ---- add / gc / misc ----

func addedOutputSpace() *space[api.AddedOutput] {
	return &space[api.AddedOutput]{typ: "AddedOutput", fields: []fa[api.AddedOutput]{
		{"Name", 3, func(p *api.AddedOutput, i int) { p.Name = strChoice(i) }},
		{"Cid", 4, func(p *api.AddedOutput, i int) { p.Cid = cids(i) }},
		{"Bytes", 3, func(p *api.AddedOutput, i int) { p.Bytes = []uint64{0, 262144, math.MaxUint64}[i] }},
		{"Size", 3, func(p *api.AddedOutput, i int) { p.Size = []uint64{0, 1, math.MaxUint64}[i] }},
	}}
}

func ipfsRepoGCSpace() *space[api.IPFSRepoGC] {
	return &space[api.IPFSRepoGC]{typ: "IPFSRepoGC", fields: []fa[api.IPFSRepoGC]{
		// choice 4: error entries carry no key (system-produced)
		{"Key", 5, func(p *api.IPFSRepoGC, i int) { p.Key = cids(i) }},
		{"Error", 3, func(p *api.IPFSRepoGC, i int) { p.Error = strChoice(i) }},
	}}
}

func gcKeys(i int) []api.IPFSRepoGC {
	switch i {
	case 1:
		return []api.IPFSRepoGC{{Key: cidV0}}
	case 2:
		return []api.IPFSRepoGC{{Key: cidV1}, {Error: "could not gc"}, {Key: cidRaw, Error: nastyS}}
	case 3:
		return []api.IPFSRepoGC{}
	}
	return nil
}

func repoGCSpace() *space[api.RepoGC] {
	return &space[api.RepoGC]{typ: "RepoGC", fields: []fa[api.RepoGC]{
		{"Peer", 2, func(p *api.RepoGC, i int) { p.Peer = []peer.ID{p1, p2}[i] }},
		{"Peername", 3, func(p *api.RepoGC, i int) { p.Peername = strChoice(i) }},
		{"Keys", 4, func(p *api.RepoGC, i int) { p.Keys = gcKeys(i) }},
		{"Error", 3, func(p *api.RepoGC, i int) { p.Error = strChoice(i) }},
	}}
}

func globalRepoGCSpace() *space[api.GlobalRepoGC] {
	return &space[api.GlobalRepoGC]{typ: "GlobalRepoGC", fields: []fa[api.GlobalRepoGC]{
		{"PeerMap", 5, func(p *api.GlobalRepoGC, i int) {
			switch i {
			case 1:
				p.PeerMap = map[string]*api.RepoGC{peer.Encode(p1): {Peer: p1, Peername: "a", Keys: gcKeys(1)}}
			case 2:
				p.PeerMap = map[string]*api.RepoGC{
					peer.Encode(p1): {Peer: p1, Peername: nastyS, Keys: gcKeys(2)},
					peer.Encode(p2): {Peer: p2, Error: "rpc failed"},
					peer.Encode(p3): {Peer: p3, Keys: gcKeys(3)}}
			case 3:
				p.PeerMap = map[string]*api.RepoGC{}
			case 4:
				p.PeerMap = map[string]*api.RepoGC{peer.Encode(p2): {Peer: p2, Keys: gcKeys(2), Error: "x"}}
			}
		}},
	}}
}

func ipfsRepoStatSpace() *space[api.IPFSRepoStat] {
	return &space[api.IPFSRepoStat]{typ: "IPFSRepoStat", fields: []fa[api.IPFSRepoStat]{
		{"RepoSize", 3, func(p *api.IPFSRepoStat, i int) { p.RepoSize = []uint64{0, 12345, math.MaxUint64}[i] }},
		{"StorageMax", 3, func(p *api.IPFSRepoStat, i int) { p.StorageMax = []uint64{0, 10000000000, math.MaxUint64}[i] }},
	}}
}

func nodeWithMetaSpace() *space[api.NodeWithMeta] {
	return &space[api.NodeWithMeta]{typ: "NodeWithMeta", fields: []fa[api.NodeWithMeta]{
		{"Data", 4, func(p *api.NodeWithMeta, i int) {
			p.Data = [][]byte{nil, {0}, {0xff, 0xc0, 0x80, 0x00, 0xc1, 'a'}, {}}[i]
		}},
		{"Cid", 4, func(p *api.NodeWithMeta, i int) { p.Cid = cids(i) }},
		{"CumSize", 3, func(p *api.NodeWithMeta, i int) { p.CumSize = []uint64{0, 1, math.MaxUint64}[i] }},
	}}
}

func connectGraphSpace() *space[api.ConnectGraph] {
	k1, k2, k3 := peer.Encode(p1), peer.Encode(p2), peer.Encode(p3)
	links := func(i int) map[string][]peer.ID {
		switch i {
		case 1:
			return map[string][]peer.ID{k1: {p2}}
		case 2:
			return map[string][]peer.ID{k1: {p2, p3}, k2: {}, k3: {p1}}
		case 3:
			return map[string][]peer.ID{}
		}
		return nil
	}
	return &space[api.ConnectGraph]{typ: "ConnectGraph", fields: []fa[api.ConnectGraph]{
		{"ClusterID", 2, func(p *api.ConnectGraph, i int) { p.ClusterID = []peer.ID{p1, p2}[i] }},
		{"IDtoPeername", 3, func(p *api.ConnectGraph, i int) {
			p.IDtoPeername = []map[string]string{nil, {k1: "one", k2: nastyS}, {}}[i]
		}},
		{"IPFSLinks", 4, func(p *api.ConnectGraph, i int) { p.IPFSLinks = links(i) }},
		{"ClusterLinks", 4, func(p *api.ConnectGraph, i int) { p.ClusterLinks = links(i) }},
		{"ClusterTrustLinks", 3, func(p *api.ConnectGraph, i int) {
			p.ClusterTrustLinks = []map[string]bool{nil, {k1: true, k2: false}, {}}[i]
		}},
		{"ClustertoIPFS", 3, func(p *api.ConnectGraph, i int) {
			p.ClustertoIPFS = []map[string]peer.ID{nil, {k1: p3, k2: p1}, {}}[i]
		}},
	}}
}

func versionSpace() *space[api.Version] {
	return &space[api.Version]{typ: "Version", fields: []fa[api.Version]{
		{"Version", 3, func(p *api.Version, i int) { p.Version = []string{"", "0.14.0", nastyS}[i] }},
	}}
}

func errorSpace() *space[api.Error] {
	return &space[api.Error]{typ: "Error", fields: []fa[api.Error]{
		{"Code", 4, func(p *api.Error, i int) { p.Code = []int{0, 404, 500, -1}[i] }},
		{"Message", 3, func(p *api.Error, i int) { p.Message = strChoice(i) }},
	}}
}

func multiaddrSpace() *space[api.Multiaddr] {
	all := []multiaddr.Multiaddr{ma3, ma1, ma2, ma4,
		multiaddr.StringCast("/ip4/0.0.0.0"), multiaddr.StringCast("/dns/localhost/tcp/443/wss"),
		multiaddr.StringCast("/p2p/" + peer.Encode(p2)), multiaddr.StringCast("/unix/a/b c")}
	return &space[api.Multiaddr]{typ: "Multiaddr", fields: []fa[api.Multiaddr]{
		{"Multiaddr", len(all), func(p *api.Multiaddr, i int) { p.Multiaddr = all[i] }},
	}}
}

// ---- scalar enums (wrapped so that they fit the same machinery) ----

func trackerStatusSpace() *space[api.TrackerStatus] {
	all := append([]api.TrackerStatus{api.TrackerStatusUndefined}, singleStatuses...)
	all = append(all, api.TrackerStatusError, api.TrackerStatusQueued)
	return &space[api.TrackerStatus]{typ: "TrackerStatus", fields: []fa[api.TrackerStatus]{
		{name: "value", n: len(all), set: func(p *api.TrackerStatus, i int) { *p = all[i] }},
	}}
}

// trackerFilterSpace: filters are unions of statuses (documented for
// String/FromString and used by the REST client for ?filter=).
func trackerFilterSpace() *space[api.TrackerStatus] {
	n := len(singleStatuses)
	return &space[api.TrackerStatus]{typ: "TrackerStatusFilter", fields: []fa[api.TrackerStatus]{
		{"a", n + 1, func(p *api.TrackerStatus, i int) {
			if i > 0 {
				*p |= singleStatuses[i-1]
			}
		}},
		{"b", n + 1, func(p *api.TrackerStatus, i int) {
			if i > 0 {
				*p |= singleStatuses[i-1]
			}
		}},
		{"c", n + 1, func(p *api.TrackerStatus, i int) {
			if i > 0 {
				*p |= singleStatuses[i-1]
			}
		}},
	}}
}

func pinModeSpace() *space[api.PinMode] {
	return &space[api.PinMode]{typ: "PinMode", fields: []fa[api.PinMode]{
		{"value", 2, func(p *api.PinMode, i int) { *p = api.PinMode(i) }},
	}}
}

func pinTypeSpace() *space[api.PinType] {
	all := []api.PinType{api.DataType, api.MetaType, api.ClusterDAGType, api.ShardType, api.AllType, api.BadType}
	return &space[api.PinType]{typ: "PinType", fields: []fa[api.PinType]{
		{"value", len(all), func(p *api.PinType, i int) { *p = all[i] }},
	}}
}

func ipfsPinStatusSpace() *space[api.IPFSPinStatus] {
	return &space[api.IPFSPinStatus]{typ: "IPFSPinStatus", fields: []fa[api.IPFSPinStatus]{
		{"value", 6, func(p *api.IPFSPinStatus, i int) { *p = api.IPFSPinStatus(i) }},
	}}
}

// ---- Raft log operation ----

func logOpSpace() *space[craft.LogOp] {
	ps := pinSpace()
	// the embedded pin takes every single-field deviation of the Pin space
	var pinVecs [][]int
	for _, v := range ps.pairVectors() {
		nz := 0
		for _, x := range v {
			if x != 0 {
				nz++
			}
		}
		if nz <= 1 {
			pinVecs = append(pinVecs, v)
		}
	}
	return &space[craft.LogOp]{typ: "LogOp", subs: map[string]func(int) string{"Cid": func(i int) string { return ps.mask(pinVecs[i]) }}, fields: []fa[craft.LogOp]{
		{"Type", 2, func(o *craft.LogOp, i int) { o.Type = []craft.LogOpType{craft.LogOpPin, craft.LogOpUnpin}[i] }},
		{"Cid", len(pinVecs), func(o *craft.LogOp, i int) { o.Cid = ps.build(pinVecs[i]) }},
		{"SpanCtx", 2, func(o *craft.LogOp, i int) {
			if i == 1 {
				o.SpanCtx = trace.SpanContext{TraceID: trace.TraceID{1, 2, 3, 0xff, 0x80}, SpanID: trace.SpanID{9, 8, 0xc1},
					TraceOptions: 1}
			}
		}},
		{"TagCtx", 3, func(o *craft.LogOp, i int) { o.TagCtx = [][]byte{nil, {0, 1, 2, 0xff}, {}}[i] }},
	}}
}
