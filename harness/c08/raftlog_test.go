package c08

import (
	"context"
	"fmt"
	"os"
	"testing"
	"time"

	peer "github.com/libp2p/go-libp2p-core/peer"

	"verif/harness/lib/clus"
)

// TestRaftLogSequences: the msgpack form of the Raft log, as the system really
// decodes it: go-libp2p-raft decodes every committed entry on top of ONE
// long-lived LogOp and LogOp.ApplyTo hands the pin to the state. Every ordered
// pair of pin variants is committed back to back on a real single-peer
// raft.Consensus (in a bubble) and each stored pin must equal the pin that was
// submitted (fields absent from the second entry's encoding must not keep the
// first entry's values).
func TestRaftLogSequences(t *testing.T) {
	sec := R.Sec("raft-log/decode-on-reused-op+ApplyTo")
	variants := clus.PinAlphabet()
	sec.Bounds["pin_variants"] = len(variants)
	sec.Bounds["ordered_pairs"] = len(variants) * len(variants)
	dir, _ := os.MkdirTemp(os.Getenv("VERIF_SCRATCH"), "c08raft")
	defer os.RemoveAll(dir)
	clus.Bubble(t, func(t *testing.T) {
		ctx := context.Background()
		_, hosts := clus.NewMocknet(ctx, 0, 1)
		rp, err := clus.NewRaftPeer(hosts[0], dir, []peer.ID{hosts[0].ID()}, false, nil)
		if err != nil {
			t.Fatal(err)
		}
		defer func() { rp.Cons.Shutdown(ctx); hosts[0].Close() }()
		select {
		case <-rp.Cons.Ready(ctx):
		case <-time.After(2 * time.Minute):
			R.Broken("single raft peer not ready")
			return
		}
		for i, va := range variants {
			for j, vb := range variants {
				ca := clus.Cid(fmt.Sprintf("raftlog-%d-%d-a", i, j))
				cb := clus.Cid(fmt.Sprintf("raftlog-%d-%d-b", i, j))
				want := map[string]string{ca.String(): clus.PinSig(va.Make(ca)), cb.String(): clus.PinSig(vb.Make(cb))}
				if err := rp.Cons.LogPin(ctx, va.Make(ca)); err != nil {
					R.Violation("C08|msgpack-raft-log|Pin|commit-error|first="+va.Name, map[string]interface{}{"variant": va.Name, "error": err.Error()})
					continue
				}
				if err := rp.Cons.LogPin(ctx, vb.Make(cb)); err != nil {
					R.Violation("C08|msgpack-raft-log|Pin|commit-error|second="+vb.Name, map[string]interface{}{"variant": vb.Name, "error": err.Error()})
					continue
				}
				st, err := rp.Cons.State(ctx)
				if err != nil {
					R.Violation("C08|msgpack-raft-log|Pin|state-error", map[string]interface{}{"first": va.Name, "second": vb.Name, "error": err.Error()})
					return
				}
				outcome := "equal"
				for c, w := range want {
					var got string
					l, _ := st.List(ctx)
					for _, p := range l {
						if p.Cid.String() == c {
							got = clus.PinSig(p)
						}
					}
					if got != w {
						outcome = "differs"
						which := "second"
						if c == ca.String() {
							which = "first"
						}
						R.Violation(fmt.Sprintf("C08|msgpack-raft-log|Pin|%s-of-two-consecutive-entries-stored-differently|first=%s|second=%s", which, va.Name, vb.Name),
							map[string]interface{}{"first": va.Name, "second": vb.Name, "submitted": w, "stored": got})
					}
				}
				R.Eval(sec, fmt.Sprintf("raftlog|%s>%s|%s", va.Name, vb.Name, outcome), true)
			}
		}
	})
	R.SampleTagged("raft-log", 1, map[string]string{"first": variants[1].Name, "second": variants[0].Name, "check": "stored second pin equals the submitted one"})
}
