package c08

import (
	"errors"
	"strings"
	"testing"

	"github.com/ipfs/ipfs-cluster/api"
	multiaddr "github.com/multiformats/go-multiaddr"

	"verif/harness/lib/ev"
)

// fullOK: the full product is enumerated whenever it is affordable (quick: up
// to 200 000 values; thorough: up to the given limit).
func fullOK[T any](s *space[T], limit int) bool {
	if s.fullSize() <= 200000 {
		return true
	}
	return ev.Thorough() && s.fullSize() <= limit
}

func TestRoundTripPin(t *testing.T) {
	s := pinSpace()
	all := pinCodecs()
	if !fullOK(s, 30000000) {
		runRoundTrips(t, s, all, false)
		return
	}
	// thorough: the full product through one codec of each kind; the three
	// remaining ways of reaching the same stored form on the 4-deviation set.
	var core, variants []codecT[api.Pin]
	for _, c := range all {
		switch c.name {
		case "dsstate-add-list", "dsstate-batching-commit-get", "dsstate-marshal-unmarshal-list":
			variants = append(variants, c)
		default:
			core = append(core, c)
		}
	}
	runRoundTrips(t, s, core, true)
	runRoundTripsIn(t, "roundtrip/Pin(state-variants)", s, variants, false)
}

func TestRoundTripPinOptions(t *testing.T) {
	s := pinOptionsSpace()
	runRoundTrips(t, s, []codecT[api.PinOptions]{mpCodec[api.PinOptions](), jsCodec[api.PinOptions](), pinOptionsQueryCodec()},
		fullOK(s, 2000000))
}

func TestRoundTripPinPath(t *testing.T) {
	s := pinPathSpace()
	runRoundTrips(t, s, []codecT[api.PinPath]{mpCodec[api.PinPath](), jsCodec[api.PinPath]()}, fullOK(s, 200000))
}

func TestRoundTripAddParams(t *testing.T) {
	s := addParamsSpace()
	runRoundTrips(t, s, []codecT[api.AddParams]{mpCodec[api.AddParams](), addParamsQueryCodec()}, fullOK(s, 200000))
}

func both[T any]() []codecT[T] { return []codecT[T]{mpCodec[T](), jsCodec[T]()} }

func TestRoundTripRecords(t *testing.T) {
	const lim = 300000
	{
		s := pinInfoSpace()
		runRoundTrips(t, s, both[api.PinInfo](), fullOK(s, lim))
	}
	{
		s := globalPinInfoSpace()
		runRoundTrips(t, s, both[api.GlobalPinInfo](), fullOK(s, lim))
	}
	{
		s := idSpace()
		runRoundTrips(t, s, both[api.ID](), fullOK(s, lim))
	}
	{
		s := ipfsIDSpace()
		runRoundTrips(t, s, both[api.IPFSID](), fullOK(s, lim))
	}
	{
		s := metricSpace()
		runRoundTrips(t, s, both[api.Metric](), fullOK(s, lim))
	}
	{
		s := alertSpace()
		runRoundTrips(t, s, both[api.Alert](), fullOK(s, lim))
	}
	{
		s := addedOutputSpace()
		runRoundTrips(t, s, both[api.AddedOutput](), fullOK(s, lim))
	}
	{
		s := ipfsRepoGCSpace()
		runRoundTrips(t, s, both[api.IPFSRepoGC](), fullOK(s, lim))
	}
	{
		s := repoGCSpace()
		runRoundTrips(t, s, both[api.RepoGC](), fullOK(s, lim))
	}
	{
		s := globalRepoGCSpace()
		runRoundTrips(t, s, both[api.GlobalRepoGC](), fullOK(s, lim))
	}
	{
		s := ipfsRepoStatSpace()
		runRoundTrips(t, s, both[api.IPFSRepoStat](), fullOK(s, lim))
	}
	{
		s := nodeWithMetaSpace()
		runRoundTrips(t, s, []codecT[api.NodeWithMeta]{mpCodec[api.NodeWithMeta]()}, fullOK(s, lim))
	}
	{
		s := connectGraphSpace()
		runRoundTrips(t, s, both[api.ConnectGraph](), fullOK(s, lim))
	}
	{
		s := versionSpace()
		runRoundTrips(t, s, both[api.Version](), fullOK(s, lim))
	}
	{
		s := errorSpace()
		runRoundTrips(t, s, both[api.Error](), fullOK(s, lim))
	}
	{
		s := multiaddrSpace()
		runRoundTrips(t, s, append(both[api.Multiaddr](),
			strCodec("string", func(m *api.Multiaddr) string { return m.String() },
				func(x string) (api.Multiaddr, error) { return api.NewMultiaddr(x) })), true)
	}
}

func TestRoundTripEnums(t *testing.T) {
	tsString := strCodec("string", func(s *api.TrackerStatus) string { return s.String() },
		func(x string) (api.TrackerStatus, error) { return api.TrackerStatusFromString(x), nil })
	{
		s := trackerStatusSpace()
		runRoundTrips(t, s, append(both[api.TrackerStatus](), tsString), true)
	}
	{
		// filters: unions of up to 3 statuses; String() documents a comma
		// separated list, FromString documents that it parses one.
		// Filters travel as msgpack ints (RPC StatusAll) and as strings
		// (REST client: filter.String() -> ?filter= -> TrackerStatusFromString);
		// JSON is only used for the single-valued PinInfo.Status.
		s := trackerFilterSpace()
		tsFilter := tsString
		tsFilter.classify = func(exp, got *api.TrackerStatus, _ string) string {
			extra, lost := *got&^*exp, *exp&^*got
			var cl []string
			if lost != 0 {
				cl = append(cl, "lost-bits")
			}
			if extra&api.TrackerStatusError != 0 {
				cl = append(cl, "widened-to-composite(error)")
			}
			if extra&api.TrackerStatusQueued != 0 {
				cl = append(cl, "widened-to-composite(queued)")
			}
			if extra&^(api.TrackerStatusError|api.TrackerStatusQueued) != 0 {
				cl = append(cl, "other-extra-bits")
			}
			return strings.Join(cl, "+")
		}
		runRoundTrips(t, s, []codecT[api.TrackerStatus]{mpCodec[api.TrackerStatus](), tsFilter}, true)
	}
	{
		s := pinModeSpace()
		runRoundTrips(t, s, append(both[api.PinMode](),
			strCodec("string", func(m *api.PinMode) string { return m.String() },
				func(x string) (api.PinMode, error) { return api.PinModeFromString(x), nil })), true)
	}
	{
		s := pinTypeSpace()
		runRoundTrips(t, s, append(both[api.PinType](),
			strCodec("string", func(m *api.PinType) string { return m.String() },
				func(x string) (api.PinType, error) { return api.PinTypeFromString(x), nil })), true)
	}
	{
		s := ipfsPinStatusSpace()
		runRoundTrips(t, s, both[api.IPFSPinStatus](), true)
	}
}

func TestRoundTripLogOp(t *testing.T) {
	s := logOpSpace()
	runRoundTrips(t, s, logOpCodecs(), fullOK(s, 1000))
}

var _ = errors.New
var _ multiaddr.Multiaddr
