package c08

import (
	"bytes"
	"sort"
	"strings"
	"testing"

	"github.com/ipfs/ipfs-cluster/api"
	peer "github.com/libp2p/go-libp2p-core/peer"

	"verif/harness/lib/ev"
)

// What Pin.Equals / PinOptions.Equals claim to compare, from their doc
// comments and field list: Cid, Type, MaxDepth, Reference, Allocations (order
// free); Name, Mode, replication factors, ShardSize, UserAllocations (order
// free), ExpireAt (instant), Metadata (the empty key is ignored), Origins
// (order free); PinUpdate is "deliberately ignored".
func normOpts(o *api.PinOptions) {
	sortPeers(o.UserAllocations)
	sort.Slice(o.Origins, func(i, j int) bool { return bytes.Compare(o.Origins[i].Bytes(), o.Origins[j].Bytes()) < 0 })
	dropEmptyMetaKey(o)
	o.PinUpdate = api.PinOptions{}.PinUpdate
}

func sortPeers(p []peer.ID) { sort.Slice(p, func(i, j int) bool { return p[i] < p[j] }) }

func specDiffPin(a, b *api.Pin) []string {
	normOpts(&a.PinOptions)
	normOpts(&b.PinOptions)
	sortPeers(a.Allocations)
	sortPeers(b.Allocations)
	return diffValues(a, b)
}

func specDiffOpts(a, b *api.PinOptions) []string {
	normOpts(a)
	normOpts(b)
	return diffValues(a, b)
}

func equalsSection[T any](t *testing.T, s *space[T], name string, vecs [][]int,
	equals func(a, b *T) bool, specDiff func(a, b *T) []string) {
	sec := R.Sec("equals/" + name)
	sec.Bounds["values"] = len(vecs)
	sec.Bounds["ordered_pairs"] = len(vecs) * len(vecs)
	parallel(len(vecs)*len(vecs), func(k int) {
		ia, ib := vecs[k/len(vecs)], vecs[k%len(vecs)]
		// distinct copies, always: Equals returns false for identical pointers by design
		var ab, ba bool
		pan, val, st := guard(func() {
			ab = equals(s.build(ia), s.build(ib))
			ba = equals(s.build(ib), s.build(ia))
		})
		d := specDiff(s.build(ia), s.build(ib))
		obs := "agree"
		detail := map[string]interface{}{"a": s.describe(ia), "b": s.describe(ib),
			"a_value": render(s.build(ia)), "b_value": render(s.build(ib)), "harness_differing_fields": d,
			"a.Equals(b)": ab, "b.Equals(a)": ba}
		fields := strings.NewReplacer("#added", "#presence", "#missing", "#presence").Replace(strings.Join(d, ","))
		switch {
		case pan:
			obs = "panic"
			detail["panic"], detail["stack"] = val, st
			R.Violation("C08|Equals|"+name+"|panic|"+panicSite(st), detail)
		case ab != ba:
			obs = "asymmetric"
			R.Violation("C08|Equals|"+name+"|"+fields+"|asymmetric", detail)
		case ab && len(d) > 0:
			obs = "true-but-fields-differ"
			R.Violation("C08|Equals|"+name+"|"+fields+"|true-but-fields-differ", detail)
		case !ab && len(d) == 0:
			obs = "false-but-fields-equal"
			R.Violation("C08|Equals|"+name+"|false-but-fields-equal", detail)
		}
		R.Outcome(sec, obs)
		R.Eval(sec, "Equals|"+name+"|"+s.describe(ia)+"|"+s.describe(ib)+"|"+obs, k/len(vecs) != k%len(vecs))
	})
}

func devVectors[T any](s *space[T], maxDev int) [][]int {
	return s.devs(maxDev)
}

func TestEqualsAgreesWithComparator(t *testing.T) {
	dev := 1
	if ev.Thorough() {
		dev = 2
	}
	ps := pinSpace()
	equalsSection(t, ps, "Pin", devVectors(ps, dev),
		func(a, b *api.Pin) bool { return a.Equals(b) }, specDiffPin)
	os := pinOptionsSpace()
	equalsSection(t, os, "PinOptions", devVectors(os, dev),
		func(a, b *api.PinOptions) bool { return a.Equals(b) }, specDiffOpts)
}
