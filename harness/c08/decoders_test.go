package c08

import (
	"context"
	"fmt"
	"strings"
	"sync"
	"testing"

	"github.com/ipfs/ipfs-cluster/api"
	craft "github.com/ipfs/ipfs-cluster/consensus/raft"
	"github.com/ipfs/ipfs-cluster/datastore/inmem"
	"github.com/ipfs/ipfs-cluster/state/dsstate"

	"verif/harness/lib/ev"
)

// reenc is one way a decoded value is encoded again by the system.
type reenc struct {
	name string
	f    func(v interface{}) error
	// errorIsViolation: the text says "a value that can itself be re-encoded":
	// for the codec the value came from, an error counts; for the cross-codec
	// hand-overs (JSON import -> protobuf, Raft log -> protobuf) only a crash does.
	errorIsViolation bool
}

// decoderT is one decoder of the system with the valid encodings it accepts.
type decoderT struct {
	codec, typ string
	decode     func(b []byte) (interface{}, error)
	reencs     []reenc
	corpus     [][]byte
	fieldNames []fieldName // for typed junk (msgpack / json only)
}

func (d *decoderT) name() string { return d.codec + "/" + d.typ }

type vio struct {
	key    string
	detail map[string]interface{}
}

// feed gives one byte string to a decoder and returns the outcome class and
// the violations it exhibits (every re-encoding is tried).
func (d *decoderT) feed(b []byte) (class string, vios []vio) {
	var v interface{}
	var err error
	if p, val, st := guard(func() { v, err = d.decode(b) }); p {
		return "decode-panic", []vio{{"C08|" + d.codec + "|" + d.typ + "|decode-panic|" + panicSite(st),
			map[string]interface{}{"panic": val, "stack": st}}}
	}
	if err != nil {
		if isMaskedPanic(err) {
			return "decode-masked-panic", []vio{{"C08|" + d.codec + "|" + d.typ + "|decode-recovered-panic|" + maskClass(err),
				map[string]interface{}{"error": err.Error(),
					"note": "the codec library recovered a runtime panic raised while decoding and returned it as an error"}}}
		}
		return "error", nil
	}
	class = "value"
	for _, re := range d.reencs {
		var rerr error
		if p, val, st := guard(func() { rerr = re.f(v) }); p {
			class = "reencode-panic"
			vios = append(vios, vio{"C08|" + d.codec + "->" + re.name + "|" + d.typ + "|reencode-panic|" + panicSite(st) + "|" + nilMaddrPaths(v),
				map[string]interface{}{"panic": val, "stack": st, "decoded": render(v)}})
			continue
		}
		if rerr != nil {
			if isMaskedPanic(rerr) {
				class = "reencode-panic"
				vios = append(vios, vio{"C08|" + d.codec + "->" + re.name + "|" + d.typ + "|reencode-recovered-panic|" + maskClass(rerr) + "|" + nilMaddrPaths(v),
					map[string]interface{}{"error": rerr.Error(), "decoded": render(v),
						"note": "the codec library recovered a runtime panic raised while encoding and returned it as an error"}})
			} else if re.errorIsViolation {
				class = "reencode-error"
				vios = append(vios, vio{"C08|" + d.codec + "->" + re.name + "|" + d.typ + "|reencode-error|" + errClass(rerr),
					map[string]interface{}{"error": rerr.Error(), "decoded": render(v)}})
			}
		}
	}
	return class, vios
}

func maskClass(err error) string {
	s := errClass(err)
	for _, m := range []string{"nil pointer dereference", "index out of range", "slice bounds out of range", "interface conversion"} {
		if strings.Contains(s, m) {
			return m
		}
	}
	return s
}

// feedAll feeds inputs (deduplicated) and accounts for them.
func feedAll(sec *ev.Section, d *decoderT, kind string, n int, gen func(i int) []byte) {
	cnt := newCounter()
	prefix := d.name() + "|" + kind + "|"
	parallelW(n, func(w, i int) {
		b := gen(i)
		if b == nil {
			return
		}
		class, vios := d.feed(b)
		fb := "empty"
		if len(b) > 0 {
			fb = hex2[b[0]]
		}
		cnt.add(w, prefix+fb+"|"+class)
		for _, v := range vios {
			v.detail["decoder"] = d.name()
			v.detail["input_kind"] = kind
			v.detail["input_hex"] = fmt.Sprintf("%x", b)
			v.detail["input_text"] = fmt.Sprintf("%q", string(b))
			v.detail["expected"] = "an error, or a value that can be encoded again; never a panic"
			R.Violation(v.key, v.detail)
		}
	})
	sigs := cnt.merged()
	for _, k := range sortedKeys(sigs) {
		c := sigs[k]
		class := k[strings.LastIndex(k, "|")+1:]
		for j := 0; j < c; j++ {
			R.Eval(sec, k, !strings.Contains(k, "|empty|"))
			R.Outcome(sec, d.name()+":"+class)
		}
	}
}

var hex2 = func() (t [256]string) {
	for i := range t {
		t[i] = fmt.Sprintf("%02x", i)
	}
	return
}()

// ---- mutations ----

// mutants returns every 1-edit corruption of b: truncation at every length,
// deletion and duplication of every byte, substitution of every byte by
// {0x00,0x7f,0x80,0xff,b^0x01,b^0x80}.
func mutants(b []byte, seen map[string]struct{}, out *[][]byte) {
	add := func(m []byte) {
		if _, ok := seen[string(m)]; ok {
			return
		}
		seen[string(m)] = struct{}{}
		*out = append(*out, m)
	}
	for i := 0; i < len(b); i++ {
		add(append([]byte{}, b[:i]...))
		del := append(append([]byte{}, b[:i]...), b[i+1:]...)
		add(del)
		dup := append(append(append([]byte{}, b[:i+1]...), b[i]), b[i+1:]...)
		add(dup)
		for _, s := range []byte{0x00, 0x7f, 0x80, 0xff, b[i] ^ 0x01, b[i] ^ 0x80} {
			if s == b[i] {
				continue
			}
			m := append([]byte{}, b...)
			m[i] = s
			add(m)
		}
	}
}

// ---- decoder registry ----

func corpusOf[T any](s *space[T], c codecT[T], maxDev int, cap int) [][]byte {
	var out [][]byte
	seen := map[string]struct{}{}
	for _, idx := range devVectors(s, maxDev) {
		b, err := c.enc(s.build(idx))
		if err != nil {
			continue
		}
		if _, ok := seen[string(b)]; ok {
			continue
		}
		seen[string(b)] = struct{}{}
		out = append(out, b)
		if cap > 0 && len(out) >= cap {
			break
		}
	}
	return out
}

func mkDecoder[T any](s *space[T], c codecT[T], extra ...reenc) *decoderT {
	dev, cap := 1, 40
	if ev.Thorough() {
		dev, cap = 2, 400
	}
	d := &decoderT{codec: c.name, typ: s.typ,
		decode: func(b []byte) (interface{}, error) { v, err := c.dec(b); return v, err },
		corpus: corpusOf(s, c, dev, cap)}
	d.reencs = append(d.reencs, reenc{name: c.name, errorIsViolation: true,
		f: func(v interface{}) error { _, err := c.enc(v.(*T)); return err }})
	d.reencs = append(d.reencs, extra...)
	if c.name == "msgpack" {
		// REST handlers JSON-encode what they received over RPC (msgpack)
		d.reencs = append(d.reencs, reenc{name: "json", f: func(v interface{}) error { _, err := jsEnc(v); return err }})
	}
	var zero T
	switch c.name {
	case "msgpack", "msgpack-raft":
		d.fieldNames = fieldNamesOf(zero, "codec")
	case "json":
		d.fieldNames = fieldNamesOf(zero, "json")
	}
	return d
}

var pinToProto = reenc{name: "protobuf", f: func(v interface{}) error {
	_, err := v.(*api.Pin).ProtoMarshal()
	return err
}}

// LogOp.ApplyTo hands op.Cid to state.Add (protobuf).
var logOpToProto = reenc{name: "protobuf", f: func(v interface{}) error {
	op := v.(*craft.LogOp)
	if op.Cid == nil {
		return nil
	}
	_, err := op.Cid.ProtoMarshal()
	return err
}}

// stateSnapshotDecoder: dsstate.Unmarshal of a Raft snapshot / state dump,
// followed by what every reader of the state does (List, Get) and by Marshal.
func stateSnapshotDecoder() *decoderT {
	ctx := context.Background()
	ps := pinSpace()
	d := &decoderT{codec: "dsstate-unmarshal", typ: "State"}
	type decoded struct {
		st   *dsstate.State
		pins []*api.Pin
	}
	d.decode = func(b []byte) (interface{}, error) {
		st, err := dsstate.New(inmem.New(), "/pins", nil)
		if err != nil {
			return nil, err
		}
		if err := st.Unmarshal(strings.NewReader(string(b))); err != nil {
			return nil, err
		}
		pins, err := st.List(ctx)
		if err != nil {
			return nil, err
		}
		for _, p := range pins {
			if _, err := st.Get(ctx, p.Cid); err != nil {
				return nil, err
			}
			if _, err := st.Has(ctx, p.Cid); err != nil {
				return nil, err
			}
		}
		return &decoded{st, pins}, nil
	}
	d.reencs = []reenc{
		{name: "dsstate-marshal", errorIsViolation: true, f: func(v interface{}) error {
			var sb strings.Builder
			return v.(*decoded).st.Marshal(&sb)
		}},
		{name: "protobuf", f: func(v interface{}) error {
			for _, p := range v.(*decoded).pins {
				if _, err := p.ProtoMarshal(); err != nil {
					return err
				}
			}
			return nil
		}},
		{name: "dsstate-add", f: func(v interface{}) error {
			st, _ := dsstate.New(inmem.New(), "/x", nil)
			for _, p := range v.(*decoded).pins {
				if err := st.Add(ctx, p); err != nil {
					return err
				}
			}
			return nil
		}},
	}
	// corpus: dumps of states with 1 and 3 pins
	sets := [][][]int{}
	dv := devVectors(ps, 1)
	for i := 0; i+2 < len(dv); i += 3 {
		sets = append(sets, [][]int{dv[i], dv[i+1], dv[i+2]})
		if !ev.Thorough() && len(sets) >= 4 {
			break
		}
	}
	sets = append(sets, [][]int{dv[0]})
	for _, set := range sets {
		st, _ := dsstate.New(inmem.New(), "/pins", nil)
		for k, idx := range set {
			p := ps.build(idx)
			p.Cid = uniqueCid(p.Cid, k)
			if err := st.Add(ctx, p); err != nil {
				panic(err)
			}
		}
		var sb strings.Builder
		if err := st.Marshal(&sb); err != nil {
			panic(err)
		}
		d.corpus = append(d.corpus, []byte(sb.String()))
	}
	return d
}

var (
	decOnce sync.Once
	decs    []*decoderT
)

func allDecoders() []*decoderT {
	decOnce.Do(func() {
		ps := pinSpace()
		pc := pinCodecs()
		decs = append(decs, mkDecoder(ps, pc[0])) // protobuf
		decs = append(decs, stateSnapshotDecoder())
		decs = append(decs, mkDecoder(ps, mpCodec[api.Pin](), pinToProto))
		decs = append(decs, mkDecoder(ps, jsCodec[api.Pin](), pinToProto))
		decs = append(decs, mkDecoder(logOpSpace(), logOpCodecs()[0], logOpToProto))
		add2 := func(m, j *decoderT) { decs = append(decs, m, j) }
		add2(mkDecoder(pinOptionsSpace(), mpCodec[api.PinOptions]()), mkDecoder(pinOptionsSpace(), jsCodec[api.PinOptions]()))
		add2(mkDecoder(pinPathSpace(), mpCodec[api.PinPath]()), mkDecoder(pinPathSpace(), jsCodec[api.PinPath]()))
		decs = append(decs, mkDecoder(addParamsSpace(), mpCodec[api.AddParams]()))
		add2(mkDecoder(pinInfoSpace(), mpCodec[api.PinInfo]()), mkDecoder(pinInfoSpace(), jsCodec[api.PinInfo]()))
		add2(mkDecoder(globalPinInfoSpace(), mpCodec[api.GlobalPinInfo]()), mkDecoder(globalPinInfoSpace(), jsCodec[api.GlobalPinInfo]()))
		add2(mkDecoder(idSpace(), mpCodec[api.ID]()), mkDecoder(idSpace(), jsCodec[api.ID]()))
		add2(mkDecoder(ipfsIDSpace(), mpCodec[api.IPFSID]()), mkDecoder(ipfsIDSpace(), jsCodec[api.IPFSID]()))
		add2(mkDecoder(metricSpace(), mpCodec[api.Metric]()), mkDecoder(metricSpace(), jsCodec[api.Metric]()))
		add2(mkDecoder(alertSpace(), mpCodec[api.Alert]()), mkDecoder(alertSpace(), jsCodec[api.Alert]()))
		add2(mkDecoder(addedOutputSpace(), mpCodec[api.AddedOutput]()), mkDecoder(addedOutputSpace(), jsCodec[api.AddedOutput]()))
		add2(mkDecoder(ipfsRepoGCSpace(), mpCodec[api.IPFSRepoGC]()), mkDecoder(ipfsRepoGCSpace(), jsCodec[api.IPFSRepoGC]()))
		add2(mkDecoder(repoGCSpace(), mpCodec[api.RepoGC]()), mkDecoder(repoGCSpace(), jsCodec[api.RepoGC]()))
		add2(mkDecoder(globalRepoGCSpace(), mpCodec[api.GlobalRepoGC]()), mkDecoder(globalRepoGCSpace(), jsCodec[api.GlobalRepoGC]()))
		add2(mkDecoder(ipfsRepoStatSpace(), mpCodec[api.IPFSRepoStat]()), mkDecoder(ipfsRepoStatSpace(), jsCodec[api.IPFSRepoStat]()))
		decs = append(decs, mkDecoder(nodeWithMetaSpace(), mpCodec[api.NodeWithMeta]()))
		add2(mkDecoder(connectGraphSpace(), mpCodec[api.ConnectGraph]()), mkDecoder(connectGraphSpace(), jsCodec[api.ConnectGraph]()))
		add2(mkDecoder(versionSpace(), mpCodec[api.Version]()), mkDecoder(versionSpace(), jsCodec[api.Version]()))
		add2(mkDecoder(errorSpace(), mpCodec[api.Error]()), mkDecoder(errorSpace(), jsCodec[api.Error]()))
		add2(mkDecoder(multiaddrSpace(), mpCodec[api.Multiaddr]()), mkDecoder(multiaddrSpace(), jsCodec[api.Multiaddr]()))
		add2(mkDecoder(trackerStatusSpace(), mpCodec[api.TrackerStatus]()), mkDecoder(trackerStatusSpace(), jsCodec[api.TrackerStatus]()))
		add2(mkDecoder(pinModeSpace(), mpCodec[api.PinMode]()), mkDecoder(pinModeSpace(), jsCodec[api.PinMode]()))
		add2(mkDecoder(pinTypeSpace(), mpCodec[api.PinType]()), mkDecoder(pinTypeSpace(), jsCodec[api.PinType]()))
		add2(mkDecoder(ipfsPinStatusSpace(), mpCodec[api.IPFSPinStatus]()), mkDecoder(ipfsPinStatusSpace(), jsCodec[api.IPFSPinStatus]()))
	})
	return decs
}

// ---- sections ----

func TestDecodersOnCorruptedEncodings(t *testing.T) {
	sec := R.Sec("decoders/1-edit-corruptions")
	sec.Bounds["edits"] = "truncate at every length; delete / duplicate every byte; substitute every byte by {00,7f,80,ff,b^01,b^80}"
	per := map[string]interface{}{}
	for _, d := range allDecoders() {
		var muts [][]byte
		seen := map[string]struct{}{}
		for _, b := range d.corpus {
			mutants(b, seen, &muts)
		}
		per[d.name()] = map[string]int{"valid_encodings": len(d.corpus), "corruptions": len(muts)}
		feedAll(sec, d, "corruption", len(muts), func(i int) []byte { return muts[i] })
	}
	sec.Bounds["per_decoder"] = per
}

const jsonAlphabet = "{}[]\":,019 atfne-.\\/"

// reduced "structural" alphabets for the longer strings
var (
	protoAlphabet = []byte{0x00, 0x01, 0x02, 0x08, 0x0a, 0x10, 0x12, 0x1a, 0x20, 0x22, 0x28, 0x2a, 0x32, 0x3a, 0x42, 0x4a, 0x52, 0x7f, 0x80, 0xff, 'Q', 0x55}
	mpAlphabet    = []byte{0x00, 0x01, 0x7f, 0x80, 0x81, 0x82, 0x90, 0x91, 0x92, 0xa0, 0xa1, 0xa2, 'c', 'g', 'a', 'r', 'e', 'k', 'v', 0xc0, 0xc2, 0xc3, 0xc4, 0xd9, 0xdc, 0xde, 0xff}
)

func enumStrings(sec *ev.Section, d *decoderT, kind string, alphabet []byte, l int) {
	alpha := len(alphabet)
	n := 1
	for k := 0; k < l; k++ {
		n *= alpha
	}
	feedAll(sec, d, kind, n, func(i int) []byte {
		b := make([]byte, l)
		for k := l - 1; k >= 0; k-- {
			b[k] = alphabet[i%alpha]
			i /= alpha
		}
		return b
	})
}

var allBytes = func() []byte {
	b := make([]byte, 256)
	for i := range b {
		b[i] = byte(i)
	}
	return b
}()

func TestDecodersOnShortStrings(t *testing.T) {
	sec := R.Sec("decoders/short-byte-strings")
	binAll, binPin, redMax := 2, 3, 4
	jsAll, jsPin := 3, 4
	if ev.Thorough() {
		binAll, binPin, redMax = 3, 3, 5
		jsAll, jsPin = 5, 6
	}
	sec.Bounds["binary_decoders_all_256_bytes_up_to_len"] = binAll
	sec.Bounds["Pin_protobuf_all_256_bytes_up_to_len"] = binPin
	sec.Bounds["reduced_alphabet_up_to_len_Pin_LogOp_State"] = redMax
	sec.Bounds["reduced_alphabet_up_to_len_minor_decoders_thorough"] = 4
	sec.Bounds["reduced_alphabet_protobuf"] = fmt.Sprintf("%x", protoAlphabet)
	sec.Bounds["reduced_alphabet_msgpack"] = fmt.Sprintf("%x", mpAlphabet)
	sec.Bounds["json_alphabet"] = jsonAlphabet
	sec.Bounds["json_decoders_up_to_len"] = jsAll
	sec.Bounds["json_Pin_up_to_len"] = jsPin
	// thorough: all 256^3 strings for the decoders of the records that cross
	// peers most; the remaining binary decoders get 256^2 plus the reduced
	// alphabet up to redMax.
	deep := map[string]bool{"Pin": true, "LogOp": true, "State": true, "PinOptions": true, "AddParams": true,
		"PinInfo": true, "GlobalPinInfo": true, "ID": true, "Metric": true, "Multiaddr": true}
	sec.Bounds["all_256_len3_in_thorough_for"] = "Pin LogOp State PinOptions AddParams PinInfo GlobalPinInfo ID Metric Multiaddr"
	for _, d := range allDecoders() {
		isJSON := d.codec == "json"
		maxLen, alphabet := binAll, allBytes
		if isJSON {
			maxLen, alphabet = jsAll, []byte(jsonAlphabet)
		} else if ev.Thorough() && !deep[d.typ] {
			maxLen = 2
		}
		if d.typ == "Pin" {
			if isJSON {
				maxLen = jsPin
			} else if d.codec == "protobuf" || ev.Thorough() {
				maxLen = binPin
			}
		}
		for l := 0; l <= maxLen; l++ {
			enumStrings(sec, d, fmt.Sprintf("len%d", l), alphabet, l)
		}
		if !isJSON && (d.typ == "Pin" || d.typ == "LogOp" || d.typ == "State" || (ev.Thorough() && !deep[d.typ])) {
			red := mpAlphabet
			if d.codec == "protobuf" {
				red = protoAlphabet
			}
			top := redMax
			if !(d.typ == "Pin" || d.typ == "LogOp" || d.typ == "State") {
				top = 4 // minor decoders in thorough: reduced alphabet up to 4
			}
			for l := maxLen + 1; l <= top; l++ {
				enumStrings(sec, d, fmt.Sprintf("reduced-len%d", l), red, l)
			}
		}
	}
}
