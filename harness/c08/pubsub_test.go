package c08

// Metrics travel between peers as msgpack messages on a pubsub topic:
// Monitor.PublishMetric encodes, the receiving Monitor decodes. This section
// sends every ordered pair of metrics of a small alphabet back to back from
// one real pubsubmon.Monitor to another (and to itself) and compares what each
// monitor reports with what was published: the encoded bytes of the first
// message must survive the encoding of the second, and the decoded value of
// the second must not carry anything over from the first.

import (
	"context"
	"fmt"
	"testing"
	"testing/synctest"
	"time"

	"github.com/ipfs/ipfs-cluster/api"
	"github.com/ipfs/ipfs-cluster/monitor/pubsubmon"

	pubsub "github.com/libp2p/go-libp2p-pubsub"

	"verif/harness/lib/clus"
)

func pubsubMetrics() []*api.Metric {
	var out []*api.Metric
	for ni, name := range []string{"ping", "freespace"} {
		for _, val := range []string{"", "7", "123456789012345678901234567890", nastyS} {
			for _, ttl := range []time.Duration{time.Hour, 36 * time.Hour} {
				m := &api.Metric{Name: fmt.Sprintf("%s-%d", name, len(out)), Value: val, Valid: true}
				_ = ni
				m.SetTTL(ttl)
				out = append(out, m)
			}
		}
	}
	return out
}

func TestMetricOverPubsub(t *testing.T) {
	sec := R.Sec("Metric/pubsub-msgpack")
	ms := pubsubMetrics()
	sec.Bounds["metrics"] = len(ms)
	sec.Bounds["cases"] = fmt.Sprintf("every ordered pair (%d) published back to back by one real pubsubmon.Monitor (signed gossipsub, 2 connected mocknet hosts); compared at the sender and at the receiver", len(ms)*len(ms))
	clus.Bubble(t, func(t *testing.T) {
		ctx, cancel := context.WithCancel(context.Background())
		defer cancel()
		mn, hosts := clus.NewMocknetUnconnected(ctx, 0, 2)
		var mons []*pubsubmon.Monitor
		for _, h := range hosts {
			ps, err := pubsub.NewGossipSub(ctx, h, pubsub.WithMessageSigning(true), pubsub.WithStrictSignatureVerification(true))
			if err != nil {
				t.Fatal(err)
			}
			cfg := &pubsubmon.Config{}
			cfg.Default()
			mon, err := pubsubmon.New(ctx, cfg, ps, nil)
			if err != nil {
				t.Fatal(err)
			}
			mon.SetClient(nil)
			mons = append(mons, mon)
		}
		defer func() {
			for _, m := range mons {
				m.Shutdown(ctx)
			}
			for _, h := range hosts {
				h.Close()
			}
		}()
		mn.ConnectAllButSelf()
		time.Sleep(5 * time.Second) // subscriptions exchanged, mesh grafted
		synctest.Wait()
		self := hosts[0].ID()
		find := func(mon *pubsubmon.Monitor, name string) *api.Metric {
			for _, m := range mon.LatestMetrics(ctx, name) {
				if m.Peer == self {
					return m
				}
			}
			return nil
		}
		round := 0
		for i, a := range ms {
			for j, b := range ms {
				round++
				// fresh names per round: "latest" then means "of this round"
				m1, m2 := *a, *b
				m1.Name = fmt.Sprintf("%s/r%d/first", a.Name, round)
				m2.Name = fmt.Sprintf("%s/r%d/second", b.Name, round)
				m1.Peer, m2.Peer = self, self
				e1 := mons[0].PublishMetric(ctx, &m1)
				e2 := mons[0].PublishMetric(ctx, &m2)
				time.Sleep(2 * time.Second)
				synctest.Wait()
				outcome := "both-arrived-equal"
				for w, mon := range mons {
					where := []string{"sender", "receiver"}[w]
					for k, want := range []*api.Metric{&m1, &m2} {
						which := []string{"first", "second"}[k]
						got := find(mon, want.Name)
						switch {
						case got == nil:
							outcome = "lost"
							R.Violation("C08|pubsub-msgpack|Metric|"+which+"-of-two-back-to-back|not-delivered@"+where, map[string]interface{}{
								"first": m1, "second": m2, "publish_errors": fmt.Sprint(e1, e2), "pair": []int{i, j}})
						case got.Name != want.Name || got.Value != want.Value || got.Valid != want.Valid || got.Expire != want.Expire || got.Peer != want.Peer:
							outcome = "differs"
							R.Violation("C08|pubsub-msgpack|Metric|"+which+"-of-two-back-to-back|mismatch@"+where, map[string]interface{}{
								"published": want, "reported": got, "pair": []int{i, j}})
						}
					}
				}
				R.Eval(sec, fmt.Sprintf("pair %d,%d|%s", i, j, outcome), true)
				R.Outcome(sec, outcome)
			}
		}
	})
}
