// Package c18 decides C18 (concurrent use never races, panics, deadlocks or
// tears results) with the E1 engine: every schedule of small concurrent
// scenarios on the real structures, up to a preemption bound, plus a separate
// free-running -race pass of the same scenario bodies.
package c18

import (
	"context"
	"fmt"
	"os"
	"os/exec"
	"regexp"
	"sort"
	"strconv"
	"strings"
	"sync"
	"testing"
	"time"

	"verif/harness/lib/e1"
	"verif/harness/lib/ev"
)

var R *ev.Run

type scenario struct {
	name string
	nd   bool // tolerate map-iteration / select nondeterminism
	sc   e1.Scenario
	// bound overrides the tier's preemption bound when > 0
	quickBound, thoroughBound int
}

var scenarios []scenario

func register(name string, qb, tb int, sc e1.Scenario) {
	scenarios = append(scenarios, scenario{name, false, sc, qb, tb})
}

func registerND(name string, qb, tb int, sc e1.Scenario) {
	scenarios = append(scenarios, scenario{name, true, sc, qb, tb})
}

func TestMain(m *testing.M) {
	if os.Getenv("VERIF_MODE") == "race" {
		os.Exit(m.Run())
	}
	R = ev.New("C18", "model_checking")
	R.Rule("one evaluation = one complete schedule of a 2-3 thread scenario executed on the real (overlay-instrumented) code under the cooperative scheduler; schedules are enumerated by DFS over choice prefixes up to the stated preemption bound; distinct_nontrivial counts distinct (scenario, observable outcome) pairs; states = distinct outcomes, transitions = scheduling decisions taken")
	R.Assume("segments between scheduling points (lock/rlock/waitgroup-wait/channel operations of instrumented files, plus accesses to listed unsynchronised fields) are atomic w.r.t. each other, given data-race freedom, which is checked only by the separate free-running -race pass (not exhaustive)")
	R.Assume("Go's random choice among simultaneously ready select cases is not controlled; scenarios are built so that at most one case is ready per step")
	R.Assume("sequentially consistent memory; at most 3 concurrent callers per scenario")
	ev.Main(m.Run, R)
}

func TestExplore(t *testing.T) {
	if os.Getenv("VERIF_MODE") == "race" {
		t.Skip()
	}
	only := os.Getenv("VERIF_SCENARIO")
	if u := ev.ChildUnit(); u != "" {
		only = u
	} else if _, isReplay := os.LookupEnv("VERIF_REPLAY_CHOICES"); !isReplay {
		// parent: one child process per scenario (a panic in a component
		// goroutine must not take the whole check down)
		var units []string
		for _, s := range scenarios {
			if only == "" || s.name == only {
				units = append(units, s.name)
			}
		}
		per := 3 * time.Minute
		if ev.Thorough() {
			per = 40 * time.Minute
		}
		R.RunChildren("TestExplore", units, 8, per)
		return
	}
	for _, s := range scenarios {
		if only != "" && s.name != only {
			continue
		}
		if ch, isReplay := os.LookupEnv("VERIF_REPLAY_CHOICES"); only != "" && isReplay {
			var choices []int
			for _, x := range strings.Split(ch, ",") {
				n, _ := strconv.Atoi(x)
				choices = append(choices, n)
			}
			out, fs, trace := e1.Replay(t, s.sc, choices)
			fmt.Println("REPLAY", s.name, "outcome:", out)
			for _, l := range trace {
				fmt.Println("  ", l)
			}
			for _, f := range fs {
				R.Violation("C18|"+s.name+"|"+f.Key, f.Detail)
			}
			R.Eval(R.Sec("replay"), s.name+"|"+out, true)
			R.Eval(R.Sec("replay"), s.name+"|replayed", true)
			R.States(nil, 1)
			R.Transitions(int64(len(trace)))
			R.Sample(trace)
			return
		}
		bound := s.quickBound
		budget := 25 * time.Second
		if ev.Thorough() {
			bound = s.thoroughBound
			budget = 12 * time.Minute
		}
		sec := R.Sec("e1:" + s.name)
		st := e1.Explore(t, R, sec, s.name, s.sc, e1.Options{Bound: bound, Budget: budget, TolerateND: s.nd})
		fmt.Printf("E1 %-28s bound=%d executions=%d points=%d outcomes=%d maxdepth=%d %s\n", s.name, bound, st.Executions, st.Points, len(st.Outcomes), st.MaxDepth, st.Capped)
	}
}

// ---- free-running race pass ----

// TestRacePass runs in the -race binary (VERIF_MODE=race): the same scenario
// bodies, no scheduler, real goroutines, many iterations.
func TestRacePass(t *testing.T) {
	if os.Getenv("VERIF_MODE") != "race" {
		t.Skip()
	}
	iters, _ := strconv.Atoi(os.Getenv("VERIF_RACE_ITERS"))
	if iters == 0 {
		iters = 100
	}
	from, _ := strconv.Atoi(os.Getenv("VERIF_RACE_FROM"))
	for si, s := range scenarios {
		if si < from {
			continue
		}
		for i := 0; i < iters; i++ {
			ex := s.sc(t)
			var wg sync.WaitGroup
			names := make([]string, 0, len(ex.Threads))
			for n := range ex.Threads {
				names = append(names, n)
			}
			sort.Strings(names)
			for _, n := range names {
				f := ex.Threads[n]
				wg.Add(1)
				go func() {
					defer wg.Done()
					defer func() { recover() }() // panics are E1's business
					f()
				}()
			}
			wg.Wait()
			if ex.Teardown != nil {
				ex.Teardown()
			}
		}
		fmt.Printf("RACEPASS %s iterations=%d\n", s.name, iters)
	}
}

var raceFn = regexp.MustCompile(`^\s+([A-Za-z0-9_./()*\-]+)\(`)

// TestRaceDriver (normal binary) runs the -race binary and turns its reports
// into violations keyed by the two innermost repository functions involved.
func TestRaceDriver(t *testing.T) {
	if os.Getenv("VERIF_MODE") == "race" || os.Getenv("VERIF_SCENARIO") != "" || ev.ChildUnit() != "" {
		t.Skip()
	}
	bin := os.Getenv("VERIF_RACE_BIN")
	if bin == "" {
		R.Broken("VERIF_RACE_BIN not set: the race pass binary was not built")
		return
	}
	iters := "60"
	if ev.Thorough() {
		iters = "1500"
	}
	// The free-running pass cannot be interrupted from inside: if the code
	// under test deadlocks for real (E1 reports that deterministically), the
	// pass would hang for ever. It gets a generous deadline; passing it makes
	// the pass incomplete (reported, exit status unaffected), never a verdict.
	deadline := 6 * time.Minute
	if ev.Thorough() {
		deadline = 90 * time.Minute
	}
	ctx, cancel := context.WithTimeout(context.Background(), deadline)
	defer cancel()
	// A panic outside the scenario threads (a component's own goroutine) or a
	// runtime "fatal error" (concurrent map access) kills the free-running
	// process: when the crash site is in the repository that is a C18
	// violation, and the pass carries on with the scenario after the one that
	// crashed.
	var out []byte
	var err error
	from := 0
	for {
		cmd := exec.CommandContext(ctx, bin, "-test.run", "TestRacePass", "-test.timeout=0")
		cmd.WaitDelay = 5 * time.Second
		cmd.Env = append(os.Environ(), "VERIF_MODE=race", "VERIF_RACE_ITERS="+iters, "VERIF_RACE_FROM="+strconv.Itoa(from), "GORACE=halt_on_error=0 history_size=3")
		var o []byte
		o, err = cmd.CombinedOutput()
		out = append(out, o...)
		done := from + strings.Count(string(o), "RACEPASS ")
		if ctx.Err() != nil || err == nil || done >= len(scenarios) {
			break
		}
		cls, trace := ev.CrashSite(string(o))
		if cls == "" || !strings.Contains(strings.Join(trace, "\n"), "github.com/ipfs/ipfs-cluster") {
			break
		}
		R.Violation("C18|race-pass|"+scenarios[done].name+"|crash:"+cls, map[string]interface{}{"scenario": scenarios[done].name, "mode": "free-running -race pass", "trace": trace})
		out = append(out, []byte("\nRACEPASS-CRASHED "+scenarios[done].name+"\n")...)
		from = done + 1
		if from >= len(scenarios) {
			err = nil
			break
		}
	}
	hung := ctx.Err() != nil
	sec := R.Sec("race-pass")
	sec.Exhaustive = false
	sec.Bounds["iterations_per_scenario"] = iters
	reports := strings.Split(string(out), "WARNING: DATA RACE")
	nrep := 0
	for _, rep := range reports[1:] {
		nrep++
		end := strings.Index(rep, "==================")
		if end > 0 {
			rep = rep[:end]
		}
		// first repository frame of each of the two accesses
		var fns []string
		for _, block := range strings.Split(rep, "\n\n") {
			if !(strings.Contains(block, "Read at") || strings.Contains(block, "Write at") || strings.Contains(block, "Previous read") || strings.Contains(block, "Previous write")) {
				continue
			}
			for _, l := range strings.Split(block, "\n") {
				m := raceFn.FindStringSubmatch(l)
				if m != nil && strings.Contains(m[1], "ipfs-cluster") && !strings.Contains(m[1], "verifshim") {
					fn := m[1]
					fn = fn[strings.Index(fn, "ipfs-cluster")+len("ipfs-cluster"):]
					fns = append(fns, fn)
					break
				}
			}
		}
		sort.Strings(fns)
		if len(fns) == 0 {
			// both accesses are in harness code: a defect of the scenario
			// body, not a statement about the repository
			R.Broken("race report without a repository frame (the scenario body races with itself):\n%s", rep)
			continue
		}
		key := "C18|race|" + strings.Join(fns, "~")
		lines := strings.Split(rep, "\n")
		if len(lines) > 40 {
			lines = lines[:40]
		}
		R.Violation(key, map[string]interface{}{"report": lines})
	}
	ran := strings.Count(string(out), "RACEPASS ") + strings.Count(string(out), "RACEPASS-CRASHED ")
	sec.Bounds["scenarios_run"] = ran
	sec.Bounds["race_reports"] = nrep
	R.Eval(sec, "race-pass|reports="+strconv.Itoa(nrep), true)
	if hung {
		next := "?"
		if ran < len(scenarios) {
			next = scenarios[ran].name
		}
		sec.CapHit = fmt.Sprintf("free-running pass stopped after %s inside scenario %q (%d of %d scenarios done): the scenario did not return", deadline, next, ran, len(scenarios))
		R.NotExhaustive("race pass: " + sec.CapHit)
		return
	}
	if ran != len(scenarios) {
		tail := string(out)
		if len(tail) > 3000 {
			tail = tail[len(tail)-3000:]
		}
		R.Broken("race pass did not complete (%v): ran %d of %d scenarios\n%s", err, ran, len(scenarios), tail)
	}
}
