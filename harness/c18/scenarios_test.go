package c18

import (
	"context"
	"errors"
	"fmt"
	"os"
	"sort"
	"strings"
	"sync"
	"sync/atomic"
	"testing"
	"testing/synctest"
	"time"

	"github.com/anishathalye/porcupine"

	ipfscluster "github.com/ipfs/ipfs-cluster"
	"github.com/ipfs/ipfs-cluster/api"
	"github.com/ipfs/ipfs-cluster/consensus/crdt"
	"github.com/ipfs/ipfs-cluster/informer/disk"
	"github.com/ipfs/ipfs-cluster/informer/numpin"
	"github.com/ipfs/ipfs-cluster/monitor/metrics"
	"github.com/ipfs/ipfs-cluster/pintracker/optracker"
	"github.com/ipfs/ipfs-cluster/pintracker/stateless"
	"github.com/ipfs/ipfs-cluster/state"

	cid "github.com/ipfs/go-cid"
	peer "github.com/libp2p/go-libp2p-core/peer"

	"verif/harness/lib/clus"
	"verif/harness/lib/e1"
)

var raceMode = os.Getenv("VERIF_MODE") == "race"

func quiesce() {
	if !raceMode {
		synctest.Wait()
	}
}

// ---------- history recording for linearizability checks ----------

type hist struct {
	clock atomic.Int64
	ops   []porcupine.Operation
	mu    chan struct{}
}

func newHist() *hist { return &hist{mu: make(chan struct{}, 1)} }

func (h *hist) do(client int, in interface{}, f func() interface{}) {
	call := h.clock.Add(1)
	out := f()
	ret := h.clock.Add(1)
	h.mu <- struct{}{}
	h.ops = append(h.ops, porcupine.Operation{ClientId: client, Input: in, Call: call, Output: out, Return: ret})
	<-h.mu
}

// ---------- scenario 1: operation table ----------

type otIn struct {
	Op  string // track, clean, status, getall, seterror, setphase
	Typ optracker.OperationType
	ID  int
	Ph  optracker.Phase
}
type otOut struct {
	Created bool
	Status  api.TrackerStatus
	OK      bool
	N       int
}
type otOp struct {
	Typ optracker.OperationType
	Ph  optracker.Phase
}
type otState struct {
	Ops map[int]otOp // every operation object ever created, by id
	Cur int          // id in the table, 0 = none
}

func (s otState) clone() otState {
	n := otState{Ops: map[int]otOp{}, Cur: s.Cur}
	for k, v := range s.Ops {
		n.Ops[k] = v
	}
	return n
}

func phaseStatus(o otOp) api.TrackerStatus {
	op := optracker.NewOperation(context.Background(), api.PinCid(clus.Cid("x")), o.Typ, o.Ph)
	return op.ToTrackerStatus()
}

var otModel = porcupine.Model{
	Init: func() interface{} { return otState{Ops: map[int]otOp{}} },
	Step: func(st, in, out interface{}) (bool, interface{}) {
		s := st.(otState).clone()
		i := in.(otIn)
		o := out.(otOut)
		switch i.Op {
		case "track":
			if s.Cur != 0 {
				c := s.Ops[s.Cur]
				if c.Typ == i.Typ && c.Ph != optracker.PhaseError && c.Ph != optracker.PhaseDone {
					return !o.Created, s
				}
			}
			if !o.Created {
				return false, s
			}
			s.Ops[i.ID] = otOp{i.Typ, optracker.PhaseQueued}
			s.Cur = i.ID
			return true, s
		case "setphase":
			c := s.Ops[i.ID]
			c.Ph = i.Ph
			s.Ops[i.ID] = c
			return true, s
		case "clean":
			if s.Cur == i.ID {
				s.Cur = 0
			}
			return true, s
		case "seterror":
			if s.Cur != 0 {
				c := s.Ops[s.Cur]
				if c.Typ != optracker.OperationRemote && (c.Ph == optracker.PhaseDone || c.Ph == optracker.PhaseError) {
					c.Ph = optracker.PhaseError
					s.Ops[s.Cur] = c
				}
			}
			return true, s
		case "status":
			if s.Cur == 0 {
				return !o.OK, s
			}
			return o.OK && o.Status == phaseStatus(s.Ops[s.Cur]), s
		case "getall":
			n := 0
			if s.Cur != 0 {
				n = 1
			}
			if o.N != n {
				return false, s
			}
			if n == 1 {
				return o.Status == phaseStatus(s.Ops[s.Cur]), s
			}
			return true, s
		}
		return false, s
	},
	Equal: func(a, b interface{}) bool { return fmt.Sprint(a) == fmt.Sprint(b) },
}

func init() {
	register("optracker-pin-unpin-status", 2, 3, func(t *testing.T) *e1.Exec {
		ctx := context.Background()
		c := clus.Cid("a")
		opt := optracker.NewOperationTracker(ctx, clus.PID(0), "p0")
		h := newHist()
		track := func(client, id int, typ optracker.OperationType) *optracker.Operation {
			var op *optracker.Operation
			h.do(client, otIn{Op: "track", Typ: typ, ID: id}, func() interface{} {
				op = opt.TrackNewOperation(ctx, api.PinCid(c), typ, optracker.PhaseQueued)
				return otOut{Created: op != nil}
			})
			return op
		}
		setph := func(client, id int, op *optracker.Operation, ph optracker.Phase) {
			h.do(client, otIn{Op: "setphase", ID: id, Ph: ph}, func() interface{} { op.SetPhase(ph); return otOut{} })
		}
		return &e1.Exec{
			Threads: map[string]func(){
				"T0": func() {
					if op := track(0, 1, optracker.OperationPin); op != nil {
						setph(0, 1, op, optracker.PhaseInProgress)
						setph(0, 1, op, optracker.PhaseDone)
						h.do(0, otIn{Op: "clean", ID: 1}, func() interface{} { opt.Clean(ctx, op); return otOut{} })
					}
				},
				"T1": func() {
					if op := track(1, 2, optracker.OperationUnpin); op != nil {
						setph(1, 2, op, optracker.PhaseDone)
					}
					h.do(1, otIn{Op: "seterror"}, func() interface{} { opt.SetError(ctx, c, errors.New("boom")); return otOut{} })
				},
				"T2": func() {
					h.do(2, otIn{Op: "status"}, func() interface{} {
						st, ok := opt.Status(ctx, c)
						return otOut{Status: st, OK: ok}
					})
					h.do(2, otIn{Op: "getall"}, func() interface{} {
						all := opt.GetAll(ctx)
						o := otOut{N: len(all)}
						if len(all) > 0 {
							o.Status = all[0].Status
						}
						return o
					})
				},
			},
			After: func(runErr error) (string, []e1.Finding) {
				var fs []e1.Finding
				if !porcupine.CheckOperations(otModel, h.ops) {
					fs = append(fs, e1.Finding{Key: "not-linearizable", Detail: fmt.Sprintf("%+v", h.ops)})
				}
				st, ok := opt.Status(ctx, c)
				return fmt.Sprintf("final=%v/%v hist=%s", st, ok, histSig(h.ops)), fs
			},
		}
	})
}

func histSig(ops []porcupine.Operation) string {
	var s []string
	for _, o := range ops {
		s = append(s, fmt.Sprintf("%d:%v>%v", o.ClientId, o.Input, o.Output))
	}
	sort.Strings(s)
	return strings.Join(s, ";")
}

// ---------- scenario 2: pin tracker ----------

func everywhere(c cid.Cid) *api.Pin {
	p := api.PinCid(c)
	p.ReplicationFactorMin, p.ReplicationFactorMax = -1, -1
	return p
}

func newTracker(model *clus.IPFS, st state.State, queue int) *stateless.Tracker {
	cfg := &stateless.Config{}
	cfg.Default()
	cfg.ConcurrentPins = 1
	cfg.MaxPinQueueSize = queue
	tr := stateless.New(cfg, clus.PID(0), "p0", func(context.Context) (state.ReadOnly, error) { return st, nil })
	tr.SetClient(clus.LocalRPC(map[string]interface{}{"IPFSConnector": &clus.IPFSSvc{M: model}}))
	return tr
}

func init() {
	register("tracker-track-untrack-statusall", 2, 2, func(t *testing.T) *e1.Exec {
		ctx := context.Background()
		c := clus.Cid("a")
		sh := clus.NewShared(nil)
		model := clus.NewIPFS()
		tr := newTracker(model, sh.State, 10)
		pin := everywhere(c)
		var order atomic.Int32 // 1: track returned last, 2: untrack returned last
		var torn []string
		return &e1.Exec{
			Threads: map[string]func(){
				"T0": func() { sh.State.Add(ctx, pin); tr.Track(ctx, pin); order.Store(1) },
				"T1": func() { tr.Untrack(ctx, c); order.Store(2) },
				"T2": func() {
					seen := map[cid.Cid]int{}
					for _, pi := range tr.StatusAll(ctx, api.TrackerStatusUndefined) {
						seen[pi.Cid]++
						if pi.Status == api.TrackerStatusUndefined || !pi.Cid.Defined() {
							torn = append(torn, fmt.Sprintf("zero entry %+v", pi))
						}
					}
					for k, n := range seen {
						if n > 1 {
							torn = append(torn, fmt.Sprintf("cid %s listed %d times", k, n))
						}
					}
				},
			},
			After: func(runErr error) (string, []e1.Finding) {
				quiesce()
				var fs []e1.Finding
				for _, x := range torn {
					fs = append(fs, e1.Finding{Key: "statusall-torn", Detail: x})
				}
				st := tr.Status(ctx, c).Status
				return fmt.Sprintf("ipfs=%v status=%v", model.Get(c), st), fs
			},
			Teardown: func() { tr.Shutdown(ctx) },
		}
	})
	// a pin that fails while its status is being read: an error status always
	// comes with its error message (a result is never half-updated)
	register("tracker-pin-fails-status-read", 2, 2, func(t *testing.T) *e1.Exec {
		ctx := context.Background()
		c := clus.Cid("a")
		sh := clus.NewShared(nil)
		model := clus.NewIPFS()
		model.Decide = func(call *clus.Call) clus.Action {
			if call.Kind == "pin" {
				return clus.Fail
			}
			return clus.Apply
		}
		tr := newTracker(model, sh.State, 10)
		pin := everywhere(c)
		var torn []string
		look := func(where string, pi *api.PinInfo) {
			if pi == nil {
				return
			}
			if pi.Status.Match(api.TrackerStatusError) && pi.Error == "" {
				torn = append(torn, fmt.Sprintf("%s: status %s with an empty error message", where, pi.Status))
			}
		}
		return &e1.Exec{
			Threads: map[string]func(){
				"T0": func() { sh.State.Add(ctx, pin); tr.Track(ctx, pin) },
				"T1": func() {
					look("Status", tr.Status(ctx, c))
					for _, pi := range tr.StatusAll(ctx, api.TrackerStatusUndefined) {
						look("StatusAll", pi)
					}
					look("Status", tr.Status(ctx, c))
				},
			},
			After: func(runErr error) (string, []e1.Finding) {
				quiesce()
				var fs []e1.Finding
				for _, x := range torn {
					fs = append(fs, e1.Finding{Key: "status-torn", Detail: x})
				}
				pi := tr.Status(ctx, c)
				return fmt.Sprintf("final=%v err=%v", pi.Status, pi.Error != ""), fs
			},
			Teardown: func() { tr.Shutdown(ctx) },
		}
	})
	registerND("tracker-track-shutdown", 2, 3, func(t *testing.T) *e1.Exec {
		ctx := context.Background()
		c := clus.Cid("a")
		sh := clus.NewShared(nil)
		model := clus.NewIPFS()
		tr := newTracker(model, sh.State, 1)
		pin := everywhere(c)
		return &e1.Exec{
			Threads: map[string]func(){
				"T0": func() { sh.State.Add(ctx, pin); tr.Track(ctx, pin); tr.Track(ctx, everywhere(clus.Cid("b"))) },
				"T1": func() { tr.Shutdown(ctx) },
				"T2": func() { tr.RecoverAll(ctx) },
			},
			After: func(runErr error) (string, []e1.Finding) {
				quiesce()
				return fmt.Sprintf("ipfs=%v", model.Get(c)), nil
			},
			Teardown: func() { tr.Shutdown(ctx) },
		}
	})
}

// ---------- scenario 3: metrics store / checker / window ----------

func metric(name string, p peer.ID, v string, ttl time.Duration) *api.Metric {
	m := &api.Metric{Name: name, Peer: p, Value: v, Valid: true}
	m.SetTTL(ttl)
	return m
}

func init() {
	register("metrics-add-latest-remove-check", 2, 3, metricsScenario(false))
	registerND("metrics-two-peers-add-latest-remove-check", 1, 2, metricsScenario(true))
	register("window-wrap-add-read", 2, 3, func(t *testing.T) *e1.Exec {
		return windowExec()
	})
}

// reading alerts while more alerts arrive than the channel holds: the checker
// reports ErrAlertChannelFull and goes on working afterwards
func init() {
	registerND("checker-alert-channel-full-then-more", 1, 2, func(t *testing.T) *e1.Exec {
		ctx, cancel := context.WithCancel(context.Background())
		old := metrics.AlertChannelCap
		metrics.AlertChannelCap = 1
		st := metrics.NewStore()
		ck := metrics.NewChecker(ctx, st, 3.0)
		metrics.AlertChannelCap = old
		ps := []peer.ID{clus.PID(1), clus.PID(2), clus.PID(3)}
		for _, p := range ps {
			st.Add(metric("ping", p, "0", -time.Second)) // expired: each one is due an alert
		}
		var read int
		return &e1.Exec{
			Threads: map[string]func(){
				// three alerts into a channel of one, nobody reading yet
				"T0": func() { ck.CheckPeers(ps); ck.CheckAll() },
				// a reader, and another round of checks for a peer that fails later
				"T1": func() {
					for {
						select {
						case <-ck.Alerts():
							read++
							continue
						default:
						}
						break
					}
					st.Add(metric("ping", clus.PID(4), "0", -time.Second))
					ck.CheckPeers([]peer.ID{clus.PID(4)})
					ck.CheckAll()
				},
			},
			After: func(runErr error) (string, []e1.Finding) {
				return "returned", nil
			},
			Teardown: func() { cancel() },
		}
	})
}

func metricsScenario(twoPeers bool) e1.Scenario {
	return func(t *testing.T) *e1.Exec {
		ctx, cancel := context.WithCancel(context.Background())
		st := metrics.NewStore()
		ck := metrics.NewChecker(ctx, st, 3.0)
		p, q := clus.PID(1), clus.PID(2)
		st.Add(metric("ping", p, "0", -time.Second)) // already expired: the checker will alert
		if twoPeers {
			st.Add(metric("ping", q, "0", time.Hour))
		}
		var torn []string
		latest := func() {
			seen := map[peer.ID]int{}
			for _, m := range st.LatestValid("ping") {
				seen[m.Peer]++
				if m.Discard() {
					torn = append(torn, "LatestValid returned a discardable metric")
				}
			}
			for k, n := range seen {
				if n > 1 {
					torn = append(torn, fmt.Sprintf("peer %s appears %d times in LatestValid", k, n))
				}
			}
		}
		return &e1.Exec{
			Threads: map[string]func(){
				"T0": func() {
					st.Add(metric("ping", p, "1", time.Hour))
					if twoPeers {
						st.Add(metric("ping", q, "2", time.Hour))
					} else {
						st.Add(metric("ping", p, "2", time.Hour))
					}
				},
				"T1": func() { latest(); st.RemovePeer(p); latest() },
				"T2": func() {
					if twoPeers {
						ck.CheckPeers([]peer.ID{p, q})
					} else {
						ck.CheckPeers([]peer.ID{p})
					}
					ck.CheckAll()
				},
			},
			After: func(runErr error) (string, []e1.Finding) {
				var fs []e1.Finding
				for _, x := range torn {
					fs = append(fs, e1.Finding{Key: "latestvalid-torn", Detail: x})
				}
				nal := len(ck.Alerts())
				var names []string
				for _, m := range st.LatestValid("ping") {
					names = append(names, m.Value)
				}
				return fmt.Sprintf("alerts=%d latest=%v", nal, names), fs
			},
			Teardown: cancel,
		}
	}
}

func windowExec() *e1.Exec {
	{
		w := metrics.NewWindow(3)
		p := clus.PID(1)
		w.Add(metric("ping", p, "0", time.Hour))
		w.Add(metric("ping", p, "1", time.Hour))
		var torn []string
		return &e1.Exec{
			Threads: map[string]func(){
				"T0": func() { w.Add(metric("ping", p, "2", time.Hour)); w.Add(metric("ping", p, "3", time.Hour)) },
				"T1": func() {
					all := w.All()
					// newest first, strictly decreasing values, no nil
					last := 99
					for _, m := range all {
						if m == nil {
							torn = append(torn, "nil entry in All()")
							continue
						}
						var v int
						fmt.Sscan(m.Value, &v)
						if v >= last {
							torn = append(torn, fmt.Sprintf("All() not newest-first: %d after %d", v, last))
						}
						last = v
					}
					if l, err := w.Latest(); err != nil || l == nil {
						torn = append(torn, "Latest() empty on a non-empty window")
					}
					w.Distribution()
				},
			},
			After: func(runErr error) (string, []e1.Finding) {
				var fs []e1.Finding
				for _, x := range torn {
					fs = append(fs, e1.Finding{Key: "window-torn", Detail: x})
				}
				var vals []string
				for _, m := range w.All() {
					vals = append(vals, m.Value)
				}
				return fmt.Sprint(vals), fs
			},
		}
	}
}

// ---------- scenario 4: alerts arriving while Alerts() is read ----------

func alertFor(i int) *api.Alert {
	return &api.Alert{Metric: api.Metric{Name: "freespace", Peer: clus.PID(10 + i), Value: fmt.Sprint(i), Valid: true}, TriggeredAt: time.Unix(int64(1000+i), 0)}
}

func alertsScenario(prefill int) e1.Scenario {
	return func(t *testing.T) *e1.Exec {
		ctx := context.Background()
		_, hosts := clus.NewMocknet(ctx, 0, 1)
		mon := clus.NewMon()
		p, err := clus.NewPeer(ctx, &clus.PeerParts{Host: hosts[0], Monitor: mon})
		if err != nil {
			t.Fatal(err)
		}
		<-p.C.Ready()
		for i := 0; i < prefill; i++ {
			mon.AlertCh <- alertFor(1000 + i) // blocks while the handler drains (capacity 256)
		}
		for prefill > 0 && len(p.C.Alerts()) < prefill {
			if raceMode {
				time.Sleep(time.Millisecond)
			} else {
				quiesce()
			}
		}
		quiesce()
		var torn []string
		check := func(al []api.Alert) {
			seen := map[string]bool{}
			for _, a := range al {
				if a.Peer == "" || a.Name == "" {
					torn = append(torn, "zero-valued alert entry")
					continue
				}
				k := a.Peer.String()
				if seen[k] {
					torn = append(torn, "duplicated alert entry")
				}
				seen[k] = true
			}
			// newest first
			for i := 1; i < len(al); i++ {
				if al[i].TriggeredAt.After(al[i-1].TriggeredAt) {
					torn = append(torn, "alerts not newest-first")
				}
			}
		}
		return &e1.Exec{
			Threads: map[string]func(){
				"T0": func() { mon.AlertCh <- alertFor(1); mon.AlertCh <- alertFor(2) },
				"T1": func() { check(p.C.Alerts()); check(p.C.Alerts()) },
			},
			After: func(runErr error) (string, []e1.Finding) {
				quiesce()
				var fs []e1.Finding
				sort.Strings(torn)
				for _, x := range torn {
					fs = append(fs, e1.Finding{Key: "alerts-torn:" + x, Detail: x})
				}
				return fmt.Sprintf("final-alerts=%d torn=%d", len(p.C.Alerts()), len(torn)), fs
			},
			Teardown: func() { p.Stop(); hosts[0].Close() },
		}
	}
}

func init() {
	register("cluster-alerts-arrive-while-read", 2, 3, alertsScenario(0))
	// the list is reset once it holds more than 1000 alerts: readers racing with the reset
	register("cluster-alerts-wrap-while-read", 2, 3, alertsScenario(1001))
}

// ---------- scenario 5: informers GetMetric vs Shutdown ----------

func init() {
	register("informer-numpin-getmetric-shutdown", 2, 3, func(t *testing.T) *e1.Exec {
		ctx := context.Background()
		cfg := &numpin.Config{}
		cfg.Default()
		inf, err := numpin.NewInformer(cfg)
		if err != nil {
			t.Fatal(err)
		}
		inf.SetClient(clus.LocalRPC(map[string]interface{}{"IPFSConnector": &clus.IPFSSvc{M: clus.NewIPFS()}}))
		var got *api.Metric
		return &e1.Exec{
			Threads: map[string]func(){
				"T0": func() { got = inf.GetMetric(ctx) },
				"T1": func() { inf.Shutdown(ctx) },
			},
			After: func(runErr error) (string, []e1.Finding) {
				return fmt.Sprintf("valid=%v", got != nil && got.Valid), nil
			},
		}
	})
	register("informer-disk-getmetric-shutdown", 2, 3, func(t *testing.T) *e1.Exec {
		ctx := context.Background()
		cfg := &disk.Config{}
		cfg.Default()
		inf, err := disk.NewInformer(cfg)
		if err != nil {
			t.Fatal(err)
		}
		inf.SetClient(clus.LocalRPC(map[string]interface{}{"IPFSConnector": &repoStatSvc{}}))
		var got *api.Metric
		return &e1.Exec{
			Threads: map[string]func(){
				"T0": func() { got = inf.GetMetric(ctx) },
				"T1": func() { inf.Shutdown(ctx) },
			},
			After: func(runErr error) (string, []e1.Finding) {
				return fmt.Sprintf("valid=%v", got != nil && got.Valid), nil
			},
		}
	})
}

type repoStatSvc struct{}

func (*repoStatSvc) RepoStat(ctx context.Context, in struct{}, out *api.IPFSRepoStat) error {
	*out = api.IPFSRepoStat{RepoSize: 10, StorageMax: 100}
	return nil
}

var _ = ipfscluster.RPCClosed

// ---------- scenario 6: Shutdown right after (or while) the peer becomes ready ----------

func init() {
	registerND("cluster-ready-vs-shutdown", 2, 3, func(t *testing.T) *e1.Exec {
		ctx := context.Background()
		_, hosts := clus.NewMocknet(ctx, 0, 1)
		sh := clus.NewShared([]peer.ID{hosts[0].ID()})
		cons := clus.NewMemConsensusNotReady(hosts[0].ID(), sh)
		tcfg := &stateless.Config{}
		tcfg.Default()
		tcfg.ConcurrentPins = 1 // fewer idle workers = fewer irrelevant scheduling points
		tr := stateless.New(tcfg, hosts[0].ID(), "p0", cons.State)
		p, err := clus.NewPeer(ctx, &clus.PeerParts{Host: hosts[0], Consensus: cons, Shared: sh, Tracker: tr})
		if err != nil {
			t.Fatal(err)
		}
		quiesce()
		shut := false
		return &e1.Exec{
			Threads: map[string]func(){
				"T0": func() { cons.MarkReady() },
				"T1": func() { <-p.C.Ready(); p.C.Shutdown(ctx); shut = true },
			},
			After: func(runErr error) (string, []e1.Finding) {
				quiesce()
				return fmt.Sprintf("shutdown-returned=%v", shut), nil
			},
			Teardown: func() { p.Stop(); hosts[0].Close() },
		}
	})
}

// ---------- scenario 7: cluster facade Pin / Unpin / StatusAll / Shutdown ----------

func facadeScenario(withShutdown bool) e1.Scenario {
	return func(t *testing.T) *e1.Exec {
		ctx := context.Background()
		_, hosts := clus.NewMocknet(ctx, 0, 1)
		sh := clus.NewShared([]peer.ID{hosts[0].ID()})
		cons := clus.NewMemConsensus(hosts[0].ID(), sh)
		tcfg := &stateless.Config{}
		tcfg.Default()
		tcfg.ConcurrentPins = 1
		tr := stateless.New(tcfg, hosts[0].ID(), "p0", cons.State)
		p, err := clus.NewPeer(ctx, &clus.PeerParts{Host: hosts[0], Consensus: cons, Shared: sh, Tracker: tr})
		if err != nil {
			t.Fatal(err)
		}
		<-p.C.Ready()
		quiesce()
		c := clus.Cid("a")
		var torn []string
		threads := map[string]func(){
			"T0": func() { p.C.Pin(ctx, c, api.PinOptions{Name: "x"}) },
			"T1": func() { p.C.Unpin(ctx, c) },
			"T2": func() {
				gpis, _ := p.C.StatusAll(ctx, api.TrackerStatusUndefined)
				seen := map[cid.Cid]int{}
				for _, g := range gpis {
					seen[g.Cid]++
					if len(g.PeerMap) > 1 {
						torn = append(torn, "more than one peer entry on a single-peer cluster")
					}
				}
				for k, n := range seen {
					if n > 1 {
						torn = append(torn, fmt.Sprintf("cid %s listed %d times", k, n))
					}
				}
			},
		}
		if withShutdown {
			threads["T2"] = func() { p.C.Shutdown(ctx) }
		}
		return &e1.Exec{
			Threads: threads,
			After: func(runErr error) (string, []e1.Finding) {
				quiesce()
				var fs []e1.Finding
				for _, x := range torn {
					fs = append(fs, e1.Finding{Key: "statusall-torn", Detail: x})
				}
				return fmt.Sprintf("pins=%d", len(sh.Pins())), fs
			},
			Teardown: func() { p.Stop(); hosts[0].Close() },
		}
	}
}

func init() {
	registerND("cluster-pin-unpin-statusall", 1, 2, facadeScenario(false))
	registerND("cluster-pin-unpin-shutdown", 1, 2, facadeScenario(true))
}

// ---------- scenario 8b: crdt batching queue: a commit fails while callers keep logging ----------

func init() {
	registerND("crdt-batch-commit-fails-callers-continue", 1, 2, func(t *testing.T) *e1.Exec {
		ctx := context.Background()
		_, hosts := clus.NewMocknetUnconnected(ctx, 0, 1)
		store := clus.NewFaultStore()
		p, err := clus.NewCRDTPeer(ctx, hosts[0], store, false, func(c *crdt.Config) {
			c.Batching.MaxBatchSize = 2
			c.Batching.MaxBatchAge = 10 * time.Second
			c.Batching.MaxQueueSize = 10
		})
		if err != nil {
			t.Fatal(err)
		}
		<-p.Cons.Ready(ctx)
		quiesce()
		mk := func(s string) *api.Pin {
			x := api.PinCid(clus.Cid(s))
			x.ReplicationFactorMin, x.ReplicationFactorMax = -1, -1
			return x
		}
		store.FailPuts(1) // the first datastore write fails: the first (size-triggered) commit fails
		accepted := map[string]bool{}
		var mu sync.Mutex
		log := func(l string) {
			if p.Cons.LogPin(ctx, mk(l)) == nil {
				mu.Lock()
				accepted[l] = true
				mu.Unlock()
			}
		}
		return &e1.Exec{
			Threads: map[string]func(){
				"T0": func() { log("a"); log("b") },
				"T1": func() { log("c"); log("d") },
			},
			After: func(runErr error) (string, []e1.Finding) {
				quiesce()
				// the worker is alive: everything accepted is committed once
				// the age limit has passed (several times over)
				for i := 0; i < 4; i++ {
					time.Sleep(11 * time.Second)
					quiesce()
				}
				var fs []e1.Finding
				st, err := p.Cons.State(ctx)
				if err != nil {
					return "state-error", []e1.Finding{{Key: "state-error", Detail: err.Error()}}
				}
				missing := []string{}
				for l := range accepted {
					if ok, _ := st.Has(ctx, clus.Cid(l)); !ok {
						missing = append(missing, l)
					}
				}
				sort.Strings(missing)
				if len(missing) > 0 {
					fs = append(fs, e1.Finding{Key: "batch-worker-stuck", Detail: fmt.Sprintf("accepted by LogPin but not in the state 40s (4 x max_batch_age) later: %v", missing)})
				}
				return fmt.Sprintf("accepted=%d missing=%d", len(accepted), len(missing)), fs
			},
			Teardown: func() { p.Stop(); hosts[0].Close() },
		}
	})
}

// ---------- scenario 8: crdt batching queue: LogPin / LogPin / worker / Shutdown ----------

func init() {
	registerND("crdt-batch-logpin-logpin-shutdown", 1, 2, func(t *testing.T) *e1.Exec {
		ctx := context.Background()
		_, hosts := clus.NewMocknetUnconnected(ctx, 0, 1)
		p, err := clus.NewCRDTPeer(ctx, hosts[0], clus.NewFaultStore(), false, func(c *crdt.Config) {
			c.Batching.MaxBatchSize = 2
			c.Batching.MaxBatchAge = time.Hour
			c.Batching.MaxQueueSize = 1
		})
		if err != nil {
			t.Fatal(err)
		}
		<-p.Cons.Ready(ctx)
		quiesce()
		mk := func(s string) *api.Pin {
			x := api.PinCid(clus.Cid(s))
			x.ReplicationFactorMin, x.ReplicationFactorMax = -1, -1
			return x
		}
		var e0, e1x error
		return &e1.Exec{
			Threads: map[string]func(){
				"T0": func() { e0 = p.Cons.LogPin(ctx, mk("a")) },
				"T1": func() { e1x = p.Cons.LogPin(ctx, mk("b")) },
				"T2": func() { p.Cons.Shutdown(ctx) },
			},
			After: func(runErr error) (string, []e1.Finding) {
				quiesce()
				return fmt.Sprintf("a-accepted=%v b-accepted=%v", e0 == nil, e1x == nil), nil
			},
			Teardown: func() { p.Stop(); hosts[0].Close() },
		}
	})
}

// ---------- scenario 9: two Shutdown calls that overlap (while the component is in use) ----------

func init() {
	registerND("tracker-shutdown-twice-while-tracking", 2, 3, func(t *testing.T) *e1.Exec {
		ctx := context.Background()
		c := clus.Cid("a")
		sh := clus.NewShared(nil)
		model := clus.NewIPFS()
		tr := newTracker(model, sh.State, 10)
		pin := everywhere(c)
		var e1s, e2s error
		return &e1.Exec{
			Threads: map[string]func(){
				"T0": func() { sh.State.Add(ctx, pin); tr.Track(ctx, pin) },
				"T1": func() { e1s = tr.Shutdown(ctx) },
				"T2": func() { e2s = tr.Shutdown(ctx) },
			},
			After: func(runErr error) (string, []e1.Finding) {
				quiesce()
				return fmt.Sprintf("shutdown-errors=%v,%v", e1s != nil, e2s != nil), nil
			},
			Teardown: func() { tr.Shutdown(ctx) },
		}
	})
	register("informer-numpin-shutdown-twice", 2, 3, func(t *testing.T) *e1.Exec {
		ctx := context.Background()
		cfg := &numpin.Config{}
		cfg.Default()
		inf, err := numpin.NewInformer(cfg)
		if err != nil {
			t.Fatal(err)
		}
		inf.SetClient(clus.LocalRPC(map[string]interface{}{"IPFSConnector": &clus.IPFSSvc{M: clus.NewIPFS()}}))
		var got *api.Metric
		return &e1.Exec{
			Threads: map[string]func(){
				"T0": func() { got = inf.GetMetric(ctx) },
				"T1": func() { inf.Shutdown(ctx) },
				"T2": func() { inf.Shutdown(ctx) },
			},
			After: func(runErr error) (string, []e1.Finding) {
				return fmt.Sprintf("valid=%v", got != nil && got.Valid), nil
			},
		}
	})
	register("informer-disk-shutdown-twice", 2, 3, func(t *testing.T) *e1.Exec {
		ctx := context.Background()
		cfg := &disk.Config{}
		cfg.Default()
		inf, err := disk.NewInformer(cfg)
		if err != nil {
			t.Fatal(err)
		}
		inf.SetClient(clus.LocalRPC(map[string]interface{}{"IPFSConnector": &repoStatSvc{}}))
		var got *api.Metric
		return &e1.Exec{
			Threads: map[string]func(){
				"T0": func() { got = inf.GetMetric(ctx) },
				"T1": func() { inf.Shutdown(ctx) },
				"T2": func() { inf.Shutdown(ctx) },
			},
			After: func(runErr error) (string, []e1.Finding) {
				return fmt.Sprintf("valid=%v", got != nil && got.Valid), nil
			},
		}
	})
	registerND("crdt-shutdown-twice-while-logging", 1, 2, func(t *testing.T) *e1.Exec {
		ctx := context.Background()
		_, hosts := clus.NewMocknetUnconnected(ctx, 0, 1)
		p, err := clus.NewCRDTPeer(ctx, hosts[0], clus.NewFaultStore(), false, func(c *crdt.Config) {
			c.Batching.MaxBatchSize = 2
			c.Batching.MaxBatchAge = time.Hour
			c.Batching.MaxQueueSize = 1
		})
		if err != nil {
			t.Fatal(err)
		}
		<-p.Cons.Ready(ctx)
		quiesce()
		x := api.PinCid(clus.Cid("a"))
		x.ReplicationFactorMin, x.ReplicationFactorMax = -1, -1
		var e0 error
		return &e1.Exec{
			Threads: map[string]func(){
				"T0": func() { e0 = p.Cons.LogPin(ctx, x) },
				"T1": func() { p.Cons.Shutdown(ctx) },
				"T2": func() { p.Cons.Shutdown(ctx) },
			},
			After: func(runErr error) (string, []e1.Finding) {
				quiesce()
				return fmt.Sprintf("a-accepted=%v", e0 == nil), nil
			},
			Teardown: func() { p.Stop(); hosts[0].Close() },
		}
	})
	registerND("cluster-shutdown-twice-while-pinning", 1, 2, func(t *testing.T) *e1.Exec {
		ctx := context.Background()
		_, hosts := clus.NewMocknet(ctx, 0, 1)
		sh := clus.NewShared([]peer.ID{hosts[0].ID()})
		cons := clus.NewMemConsensus(hosts[0].ID(), sh)
		tcfg := &stateless.Config{}
		tcfg.Default()
		tcfg.ConcurrentPins = 1
		tr := stateless.New(tcfg, hosts[0].ID(), "p0", cons.State)
		p, err := clus.NewPeer(ctx, &clus.PeerParts{Host: hosts[0], Consensus: cons, Shared: sh, Tracker: tr})
		if err != nil {
			t.Fatal(err)
		}
		<-p.C.Ready()
		quiesce()
		c := clus.Cid("a")
		return &e1.Exec{
			Threads: map[string]func(){
				"T0": func() { p.C.Pin(ctx, c, api.PinOptions{Name: "x"}) },
				"T1": func() { p.C.Shutdown(ctx) },
				"T2": func() { p.C.Shutdown(ctx) },
			},
			After: func(runErr error) (string, []e1.Finding) {
				quiesce()
				return fmt.Sprintf("pins=%d", len(sh.Pins())), nil
			},
			Teardown: func() { p.Stop(); hosts[0].Close() },
		}
	})
}

// ---------- scenario 10: the peer never becomes ready, gives up by itself, and is shut down ----------

func init() {
	registerND("cluster-never-ready-gives-up-then-shutdown", 1, 2, func(t *testing.T) *e1.Exec {
		ctx := context.Background()
		if raceMode {
			ipfscluster.ReadyTimeout = 50 * time.Millisecond
		}
		_, hosts := clus.NewMocknet(ctx, 0, 1)
		sh := clus.NewShared([]peer.ID{hosts[0].ID()})
		cons := clus.NewMemConsensusNotReady(hosts[0].ID(), sh) // never marked ready
		tcfg := &stateless.Config{}
		tcfg.Default()
		tcfg.ConcurrentPins = 1
		tr := stateless.New(tcfg, hosts[0].ID(), "p0", cons.State)
		p, err := clus.NewPeer(ctx, &clus.PeerParts{Host: hosts[0], Consensus: cons, Shared: sh, Tracker: tr})
		if err != nil {
			t.Fatal(err)
		}
		// the consensus start times out: the peer shuts itself down
		if raceMode {
			time.Sleep(300 * time.Millisecond)
		} else {
			time.Sleep(ipfscluster.ReadyTimeout + time.Second)
		}
		quiesce()
		var returned atomic.Int32
		return &e1.Exec{
			Threads: map[string]func(){
				"T0": func() { p.C.Shutdown(ctx); returned.Add(1) },
				"T1": func() { p.C.Shutdown(ctx); returned.Add(1) },
			},
			After: func(runErr error) (string, []e1.Finding) {
				quiesce()
				done := false
				select {
				case <-p.C.Done():
					done = true
				default:
				}
				var fs []e1.Finding
				if !done {
					fs = append(fs, e1.Finding{Key: "shutdown-returned-but-peer-not-done", Detail: "Shutdown returned to both callers but Done() is not signalled"})
				}
				return fmt.Sprintf("shutdown-returned=%d done=%v", returned.Load(), done), fs
			},
			Teardown: func() { p.Stop(); hosts[0].Close() },
		}
	})
}

// ---------- scenario 11: two TrackNewOperation calls for one CID that overlap ----------

func init() {
	mk := func(typB optracker.OperationType) e1.Scenario {
		return func(t *testing.T) *e1.Exec {
			ctx := context.Background()
			c := clus.Cid("a")
			opt := optracker.NewOperationTracker(ctx, clus.PID(0), "p0")
			h := newHist()
			var opA, opB *optracker.Operation
			return &e1.Exec{
				Threads: map[string]func(){
					"T0": func() {
						h.do(0, otIn{Op: "track", Typ: optracker.OperationPin, ID: 1}, func() interface{} {
							opA = opt.TrackNewOperation(ctx, api.PinCid(c), optracker.OperationPin, optracker.PhaseQueued)
							return otOut{Created: opA != nil}
						})
					},
					"T1": func() {
						h.do(1, otIn{Op: "track", Typ: typB, ID: 2}, func() interface{} {
							opB = opt.TrackNewOperation(ctx, api.PinCid(c), typB, optracker.PhaseQueued)
							return otOut{Created: opB != nil}
						})
					},
				},
				After: func(runErr error) (string, []e1.Finding) {
					var fs []e1.Finding
					if !porcupine.CheckOperations(otModel, h.ops) {
						fs = append(fs, e1.Finding{Key: "not-linearizable", Detail: fmt.Sprintf("%+v", h.ops)})
					}
					live := 0
					for _, op := range []*optracker.Operation{opA, opB} {
						if op != nil && !op.Cancelled() {
							live++
						}
					}
					if live > 1 {
						fs = append(fs, e1.Finding{Key: "two-live-operations-for-one-cid", Detail: "both calls got an operation and neither has been cancelled: one of them is no longer in the table and runs on unobserved"})
					}
					return fmt.Sprintf("created=%v,%v live=%d", opA != nil, opB != nil, live), fs
				},
			}
		}
	}
	register("optracker-track-track-same-cid", 2, 3, mk(optracker.OperationPin))
	register("optracker-track-untrack-same-cid", 2, 3, mk(optracker.OperationUnpin))
}

// ---------- scenario 12: status listing while the daemon cannot be listed and an operation is tracked ----------

func init() {
	register("tracker-statusall-recoverall-while-daemon-listing-fails", 2, 2, func(t *testing.T) *e1.Exec {
		ctx := context.Background()
		c := clus.Cid("a")
		sh := clus.NewShared(nil)
		model := clus.NewIPFS()
		model.Decide = func(call *clus.Call) clus.Action {
			if call.Kind == "pinls" || call.Kind == "pin" {
				return clus.Fail
			}
			return clus.Apply
		}
		tr := newTracker(model, sh.State, 10)
		pin := everywhere(c)
		n1, n2 := -1, -1
		return &e1.Exec{
			Threads: map[string]func(){
				"T0": func() { sh.State.Add(ctx, pin); tr.Track(ctx, pin) },
				"T1": func() {
					n1 = len(tr.StatusAll(ctx, api.TrackerStatusUndefined))
					if l, err := tr.RecoverAll(ctx); err == nil {
						n2 = len(l)
					}
				},
			},
			After: func(runErr error) (string, []e1.Finding) {
				quiesce()
				return fmt.Sprintf("statusall=%d recoverall=%d", n1, n2), nil
			},
			Teardown: func() { tr.Shutdown(ctx) },
		}
	})
}
