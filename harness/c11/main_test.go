package c11

import (
	"bytes"
	"context"
	"encoding/base64"
	"encoding/json"
	"fmt"
	"io"
	"log"
	"net/http"
	"os"
	"reflect"
	"sort"
	"strings"
	"testing"
	"unsafe"

	mux "github.com/gorilla/mux"
	logging "github.com/ipfs/go-log/v2"
	ipfscluster "github.com/ipfs/ipfs-cluster"
	"github.com/ipfs/ipfs-cluster/api/rest"
	ma "github.com/multiformats/go-multiaddr"

	"verif/harness/lib/ev"
)

var R *ev.Run

// replayKey: when vcheck is run with --replay <artefact>, only the violation
// whose key equals the artefact's key is reported (the enumeration is cheap
// and deterministic, so a replay simply re-runs it and filters).
var replayKey string

func TestMain(m *testing.M) {
	if os.Getenv("C11_CHILD") != "" {
		// subprocess worker (see worker_test.go): no evidence, no verdict
		logging.SetAllLoggers(logging.LevelFatal)
		os.Exit(childMain())
	}
	R = ev.New("C11", "exploration")
	R.Rule("finite product, real rest.NewAPI over HTTP on 127.0.0.1:0 with recording RPC services: " +
		"(route from the live mux router x 7 methods x path-variable alphabet) + (option one-at-a-time and all pairs over a valid base, per route) " +
		"+ bodies + scripted RPC answer modes + (3 credential configs x request credential alphabet x every route/method and unknown paths) " +
		"+ every client.Client method x argument alphabets. A case is distinct by (route, method, path-var class, option names+value labels, body kind, " +
		"credential config+kind, answer mode) and observation (status, recorded RPC call names); it is non-trivial when the request either " +
		"reached a route handler or was decided by the authentication layer (i.e. everything except plain 404/405 of unknown paths without credentials).")
	R.Assume("reading the HTTP response body to EOF implies the handler has returned (net/http only flushes early on explicit Flush, and the terminating chunk is written after the handler returns), so the recorder snapshot taken afterwards is complete")
	R.Assume("'the response body is a single JSON document' is read as: never more than one document and never non-JSON bytes; an empty body (204, 405 of the router, HEAD, 3xx) is not flagged")
	R.Assume("3xx answers of the router (strict-slash / path cleaning redirects) are required to perform no RPC call; their body is not checked")
	R.Assume("option values the option's own decoder accepts without error although they name nothing (mode=garbage, local=yes, undecodable peer in user-allocations, mixed valid+invalid filters, meta- with empty key, chunker/hash names) are in the 'silent' class: either outcome (refused with 4xx and no call, or performed) is accepted and the affected field is not compared")
	R.Assume("the option enumeration of POST /add runs against an identical real server hosted in a child process of the same test binary (a panic of the code under test outside the handler goroutine would otherwise kill the check); a dead child is reported as a violation")
	R.Assume("expire-in is compared against [now_before+d, now_after+d] taken around the request (no sleeping, monotone bound)")
	if p := os.Getenv("VERIF_REPLAY"); p != "" {
		b, err := os.ReadFile(p)
		if err != nil {
			fmt.Println("cannot read replay artefact:", err)
			os.Exit(2)
		}
		var a struct {
			Key string `json:"key"`
		}
		if json.Unmarshal(b, &a) != nil || a.Key == "" {
			fmt.Println("replay artefact has no key")
			os.Exit(2)
		}
		replayKey = a.Key
		fmt.Println("REPLAY of key:", replayKey)
	}
	// silence the code under test: it logs every 4xx at error level, and the
	// net/http server logs "superfluous WriteHeader" through the std logger.
	logging.SetAllLoggers(logging.LevelFatal)
	log.SetOutput(io.Discard)
	ev.Main(m.Run, R)
}

func violate(key string, detail interface{}) {
	if replayKey != "" && key != replayKey {
		return
	}
	R.Violation(key, detail)
}

// ---------------------------------------------------------------------------
// server under test

type credCfg struct {
	Name  string
	Creds map[string]string
	// Tracing: the API is built with request tracing on (what the daemon does
	// under --tracing / observations.tracing): one more wrapper around the
	// handler chain
	Tracing bool
}

var credCfgs = []credCfg{
	{"none", nil, false},
	{"one", map[string]string{"alice": "wonder:land"}, false},
	{"two", map[string]string{"alice": "wonder:land", "bob": "builder"}, false},
	{"none+tracing", nil, true},
	{"one+tracing", map[string]string{"alice": "wonder:land"}, true},
}

type server struct {
	cfg    credCfg
	api    *rest.API
	rec    *recorder
	addr   string
	router *mux.Router
	hc     *http.Client
}

func newServer(t testing.TB, cc credCfg) *server {
	cfg := &rest.Config{}
	if err := cfg.Default(); err != nil {
		t.Fatal(err)
	}
	a, _ := ma.NewMultiaddr("/ip4/127.0.0.1/tcp/0")
	cfg.HTTPListenAddr = []ma.Multiaddr{a}
	cfg.ReadTimeout, cfg.ReadHeaderTimeout, cfg.WriteTimeout, cfg.IdleTimeout = 0, 0, 0, 0
	cfg.BasicAuthCredentials = cc.Creds
	cfg.Tracing = cc.Tracing
	api, err := rest.NewAPI(context.Background(), cfg)
	if err != nil {
		t.Fatal(err)
	}
	rec := &recorder{mode: "ok"}
	c, err := newRPC(rec)
	if err != nil {
		t.Fatal(err)
	}
	api.SetClient(c)
	addrs, err := api.HTTPAddresses()
	if err != nil || len(addrs) != 1 {
		t.Fatal("no http address", err)
	}
	s := &server{cfg: cc, api: api, rec: rec, addr: addrs[0]}
	s.router = liveRouter(api)
	if s.router == nil {
		t.Fatal("cannot reach the API's live mux router")
	}
	s.hc = &http.Client{
		Transport:     &http.Transport{MaxIdleConnsPerHost: 4, DisableCompression: true},
		CheckRedirect: func(*http.Request, []*http.Request) error { return http.ErrUseLastResponse },
	}
	return s
}

func (s *server) close() {
	s.hc.CloseIdleConnections()
	s.api.Shutdown(context.Background())
}

// liveRouter digs the *mux.Router out of the running API (unexported field):
// the route table that is enumerated is the one that serves the requests.
func liveRouter(a *rest.API) *mux.Router {
	v := reflect.ValueOf(a).Elem()
	f := v.FieldByName("router")
	if !f.IsValid() {
		return nil
	}
	p := reflect.NewAt(f.Type(), unsafe.Pointer(f.UnsafeAddr())).Elem().Interface()
	r, _ := p.(*mux.Router)
	return r
}

// ---------------------------------------------------------------------------
// raw requests

type reqSpec struct {
	Method  string            `json:"method"`
	Target  string            `json:"target"` // raw path?query as sent
	Headers map[string]string `json:"headers,omitempty"`
	Body    string            `json:"body,omitempty"`
	BodyB64 bool              `json:"body_b64,omitempty"`
	Mode    string            `json:"rpc_answer_mode"` // ok | err | notfound
}

type obs struct {
	Status   int      `json:"status"`
	NDocs    int      `json:"json_docs"`
	BadJSON  string   `json:"bad_json,omitempty"`
	Body     string   `json:"body"`
	Calls    []call   `json:"rpc_calls"`
	CallSeq  []string `json:"-"`
	Trailer  string   `json:"stream_error_trailer,omitempty"`
	TransErr string   `json:"transport_error,omitempty"`
	docs     []json.RawMessage
	ctype    string
}

func (s *server) do(rs reqSpec) obs {
	var body io.Reader
	if rs.Body != "" {
		if rs.BodyB64 {
			b, _ := base64.StdEncoding.DecodeString(rs.Body)
			body = bytes.NewReader(b)
		} else {
			body = strings.NewReader(rs.Body)
		}
	}
	var o obs
	req, err := http.NewRequest(rs.Method, "http://"+s.addr+rs.Target, body)
	if err != nil {
		o.TransErr = "harness: cannot build request: " + err.Error()
		return o
	}
	for k, v := range rs.Headers {
		req.Header.Set(k, v)
	}
	mode := rs.Mode
	if mode == "" {
		mode = "ok"
	}
	s.rec.reset(mode)
	resp, err := s.hc.Do(req)
	if err != nil {
		o.TransErr = err.Error()
		o.Calls = s.rec.snapshot()
		return o
	}
	b, rerr := io.ReadAll(resp.Body)
	resp.Body.Close()
	if rerr != nil {
		o.TransErr = "reading body: " + rerr.Error()
	}
	o.Status = resp.StatusCode
	o.ctype = resp.Header.Get("Content-Type")
	o.Trailer = resp.Trailer.Get("X-Stream-Error")
	o.Body = string(b)
	if len(o.Body) > 600 {
		o.Body = o.Body[:600] + "...(truncated)"
	}
	o.Calls = s.rec.snapshot()
	for _, c := range o.Calls {
		o.CallSeq = append(o.CallSeq, c.name())
	}
	dec := json.NewDecoder(bytes.NewReader(b))
	for {
		var raw json.RawMessage
		err := dec.Decode(&raw)
		if err == io.EOF {
			break
		}
		if err != nil {
			o.BadJSON = err.Error()
			break
		}
		o.NDocs++
		o.docs = append(o.docs, raw)
	}
	return o
}

// ---------------------------------------------------------------------------
// recorder completeness: the recording services implement exactly the method
// set (same signatures) of the real RPC API, so no call can bypass the log.

func TestRecorderCoversRealRPCAPI(t *testing.T) {
	real := map[string]interface{}{
		"Cluster":       &ipfscluster.ClusterRPCAPI{},
		"PinTracker":    &ipfscluster.PinTrackerRPCAPI{},
		"IPFSConnector": &ipfscluster.IPFSConnectorRPCAPI{},
		"Consensus":     &ipfscluster.ConsensusRPCAPI{},
		"PeerMonitor":   &ipfscluster.PeerMonitorRPCAPI{},
	}
	mine := (&recorder{}).services()
	sig := func(m reflect.Method) string {
		var p []string
		for i := 1; i < m.Type.NumIn(); i++ {
			p = append(p, m.Type.In(i).String())
		}
		return m.Name + "(" + strings.Join(p, ",") + ")"
	}
	for svc, rv := range real {
		rt, mt := reflect.TypeOf(rv), reflect.TypeOf(mine[svc])
		have := map[string]bool{}
		for i := 0; i < mt.NumMethod(); i++ {
			have[sig(mt.Method(i))] = true
		}
		for i := 0; i < rt.NumMethod(); i++ {
			if s := sig(rt.Method(i)); !have[s] {
				R.Broken("recording service %s lacks real RPC method %s: calls to it would go unrecorded", svc, s)
			}
		}
	}
}

func sortedKeys(m map[string]string) []string {
	var ks []string
	for k := range m {
		ks = append(ks, k)
	}
	sort.Strings(ks)
	return ks
}
