package c11

import (
	"bytes"
	"encoding/base64"
	"fmt"
	"io"
	"net/url"
	"sort"
	"strings"
	"testing"

	cid "github.com/ipfs/go-cid"
	files "github.com/ipfs/go-ipfs-files"
	car "github.com/ipld/go-car"
	carutil "github.com/ipld/go-car/util"
	peer "github.com/libp2p/go-libp2p-core/peer"
	mbase "github.com/multiformats/go-multibase"
	mh "github.com/multiformats/go-multihash"

	"verif/harness/lib/ev"
)

var allMethods = []string{"GET", "POST", "DELETE", "PUT", "PATCH", "OPTIONS", "HEAD"}

// ---------------------------------------------------------------------------
// alphabets

type pv struct{ Raw, Label string } // Raw is what is put in the URL (already escaped)

func hashAlphabet() []pv {
	v1b58, _ := cidV1.StringOfBase(mbase.Base58BTC)
	v0 := cidV0.String()
	return []pv{
		{v0, "cidv0"},
		{cidV1.String(), "cidv1-b32"},
		{v1b58, "cidv1-b58"},
		{"%51" + v0[1:], "cidv0-pct-encoded"},
		{"notacid", "garbage"},
		{v0[:len(v0)-1], "cidv0-truncated"},
		{v0 + "x", "cidv0-overlong"},
		{peer.Encode(peerC), "a-peer-id"},
		{"%20", "space"},
		{"-", "dash"},
	}
}

func peerAlphabet() []pv {
	return []pv{
		{peer.Encode(peerA), "peer-qm"},
		{peer.Encode(peerC), "peer-12D3"},
		{peer.ToCid(peerC).String(), "peer-as-cid"},
		{"notapeer", "garbage"},
		{cidV1.String(), "a-dagpb-cid"},
		{"%20", "space"},
	}
}

// keyType/path pairs
func pathAlphabet() [][2]pv {
	v0 := cidV0.String()
	k := func(s string) pv { return pv{s, s} }
	return [][2]pv{
		{k("ipfs"), {v0, "cid"}},
		{k("ipfs"), {v0 + "/a/b", "cid/a/b"}},
		{k("ipfs"), {cidV1.String() + "/x", "cidv1/x"}},
		{k("ipfs"), {v0 + "/a%20b/c%3Fd%23e", "cid/escaped-segments"}},
		{k("ipns"), {"example.com", "domain"}},
		{k("ipns"), {peer.Encode(peerA) + "/x", "peerid/x"}},
		{k("ipld"), {v0 + "/a", "cid/a"}},
		{k("ipfs"), {"notacid", "garbage"}},
		{k("ipfs"), {"notacid/a/b", "garbage/a/b"}},
		{k("ipld"), {"%20", "space"}},
		{k("ipfs"), {v0 + "/a/", "cid/a/ (trailing slash)"}},
		{k("ipfs"), {"", "empty"}},
		{k("ipxx"), {v0, "unknown-keytype"}},
	}
}

func nameAlphabet() []pv {
	return []pv{{"ping", "ping"}, {"freespace", "freespace"}, {"x.y-z_1", "punctuated"}, {"a%20b", "with-space"}}
}

type optVal struct {
	Opt, Val, Label string
}

func (o optVal) lab() string { return o.Opt + "=" + o.Label }

const (
	origin1 = "/ip4/1.2.3.4/tcp/4001/p2p/QmXZrtE5jQwXNqCJMfHUTQkvhQ4ZAnqMnmzFMJfLewuabc"
	origin2 = "/dns4/example.com/tcp/4001/p2p/12D3KooWGHTKzeT4KaLGLrbKKyT8zKrBPXAUBRzCAN6ZMDMo4M6M"
)

func pinOptAlphabet() []optVal {
	pa, pc := peer.Encode(peerA), peer.Encode(peerC)
	return []optVal{
		{"name", "myname", "plain"}, {"name", "a b&c=d/é?#", "special-chars"},
		{"mode", "recursive", "recursive"}, {"mode", "direct", "direct"}, {"mode", "garbage", "unknown-word"},
		{"replication", "3", "3"}, {"replication", "-1", "-1"}, {"replication", "x", "not-a-number"},
		{"replication-min", "1", "1"}, {"replication-min", "-1", "-1"}, {"replication-min", "abc", "not-a-number"},
		{"replication-min", "1.5", "fraction"}, {"replication-min", "99999999999999999999", "overflow"},
		{"replication-max", "2", "2"}, {"replication-max", "zz", "not-a-number"},
		{"shard-size", "1048576", "1MiB"}, {"shard-size", "-5", "negative"}, {"shard-size", "big", "not-a-number"},
		{"user-allocations", pa, "one-peer"}, {"user-allocations", pa + "," + pc, "two-peers"},
		{"user-allocations", "garbage", "undecodable-peer"}, {"user-allocations", pa + ",garbage", "peer+undecodable"},
		{"expire-at", "2030-01-02T03:04:05Z", "rfc3339"}, {"expire-at", "2030-01-02T03:04:05.123456789+02:00", "rfc3339-nanos-tz"},
		{"expire-at", "tomorrow", "not-a-time"}, {"expire-at", "2030-13-45T00:00:00Z", "impossible-date"},
		{"expire-in", "1h", "1h"}, {"expire-in", "90s", "90s"}, {"expire-in", "abc", "not-a-duration"},
		{"expire-in", "10", "no-unit"}, {"expire-in", "500ms", "sub-second"}, {"expire-in", "-1h", "negative"},
		{"meta-foo", "bar", "plain"}, {"meta-k2", "v 2&x=y", "special-chars"}, {"meta-", "x", "empty-key"},
		{"meta-team", "infra", "key-of-prefix-letters"}, {"meta-author", "alice", "key-starts-with-prefix-letter"}, {"meta-meta-x", "1", "key-repeats-prefix"},
		{"pin-update", cidUpd.String(), "cid"}, {"pin-update", "notacid", "undecodable-cid"},
		{"origins", origin1, "one"}, {"origins", origin1 + "," + origin2, "two"}, {"origins", "garbage", "undecodable"},
		{"origins", "/ip4/1.2.3.4/tcp/1", "no-peer-id"}, {"origins", origin1 + ",garbage", "one+undecodable"},
		{"foo", "bar", "unknown-option"},
		{"local", "true", "true"}, {"local", "false", "false"}, {"local", "yes", "unknown-word"},
		{"filter", "pinned", "status-name"}, {"filter", "pinned,pin_error", "two-status-names"}, {"filter", "queued", "composite-status"},
		{"filter", "pin", "type-name"}, {"filter", "pin,meta-pin", "two-type-names"}, {"filter", "all", "all"},
		{"filter", "garbage", "unknown-name"}, {"filter", "garbage,rubbish", "two-unknown-names"},
		{"filter", "pinned,garbage", "status+unknown"}, {"filter", "pin,garbage", "type+unknown"},
	}
}

func addOptAlphabet() []optVal {
	out := []optVal{
		{"layout", "trickle", "trickle"}, {"layout", "balanced", "balanced"}, {"layout", "weird", "unknown-word"},
		{"chunker", "size-1024", "size-1024"}, {"chunker", "garbage", "unknown-word"},
		{"hash", "sha2-512", "sha2-512"}, {"hash", "garbage", "unknown-word"},
		{"format", "unixfs", "unixfs"}, {"format", "car", "car"}, {"format", "tar", "unknown-word"},
		{"cid-version", "0", "0"}, {"cid-version", "1", "1"}, {"cid-version", "x", "not-a-number"}, {"cid-version", "7", "no-such-version"},
	}
	for _, b := range addBoolOpts {
		if b == "local" {
			continue // already in the common alphabet
		}
		out = append(out, optVal{b, "true", "true"}, optVal{b, "false", "false"}, optVal{b, "maybe", "not-a-bool"})
	}
	out = append(out, optVal{"hidden", "1", "1"})
	return out
}

func query(opts ...optVal) string {
	if len(opts) == 0 {
		return ""
	}
	var parts []string
	for _, o := range opts {
		parts = append(parts, url.QueryEscape(o.Opt)+"="+url.QueryEscape(o.Val))
	}
	return "?" + strings.Join(parts, "&")
}

func optLabel(opts ...optVal) string {
	var l []string
	for _, o := range opts {
		l = append(l, o.lab())
	}
	return strings.Join(l, "&")
}

// ---------------------------------------------------------------------------
// bodies

type bodyVal struct {
	Label string
	CType string
	Body  []byte
}

func multipartBody(dir bool) bodyVal {
	var entries []files.DirEntry
	if dir {
		d := files.NewMapDirectory(map[string]files.Node{
			"one.txt": files.NewBytesFile([]byte("first file of the directory\n")),
			"two.txt": files.NewBytesFile(bytes.Repeat([]byte("0123456789abcdef"), 200)),
		})
		entries = []files.DirEntry{files.FileEntry("dir", d)}
	} else {
		entries = []files.DirEntry{files.FileEntry("hello.txt", files.NewBytesFile(bytes.Repeat([]byte("hello c11 "), 300)))}
	}
	mfr := files.NewMultiFileReader(files.NewSliceDirectory(entries), true)
	b, err := io.ReadAll(mfr)
	if err != nil {
		panic(err)
	}
	lab := "multipart-one-file"
	if dir {
		lab = "multipart-directory"
	}
	return bodyVal{lab, "multipart/form-data; boundary=" + mfr.Boundary(), b}
}

func carBody() bodyVal {
	data := []byte("a raw block inside a CAR file")
	sum, _ := mh.Sum(data, mh.SHA2_256, -1)
	c := cid.NewCidV1(cid.Raw, sum)
	var buf bytes.Buffer
	if err := car.WriteHeader(&car.CarHeader{Roots: []cid.Cid{c}, Version: 1}, &buf); err != nil {
		panic(err)
	}
	if err := carutil.LdWrite(&buf, c.Bytes(), data); err != nil {
		panic(err)
	}
	mfr := files.NewMultiFileReader(files.NewSliceDirectory([]files.DirEntry{files.FileEntry("x.car", files.NewBytesFile(buf.Bytes()))}), true)
	b, _ := io.ReadAll(mfr)
	return bodyVal{"multipart-car", "multipart/form-data; boundary=" + mfr.Boundary(), b}
}

func addBodies() []bodyVal {
	one := multipartBody(false)
	return []bodyVal{
		one,
		multipartBody(true),
		{"no-content-type", "", one.Body},
		{"json-content-type", "application/json", one.Body},
		{"multipart-without-boundary", "multipart/form-data", one.Body},
		{"truncated", one.CType, one.Body[:len(one.Body)/2]},
		{"empty", one.CType, nil},
	}
}

func peerAddBodies() []bodyVal {
	pa := peer.Encode(peerA)
	j := "application/json"
	return []bodyVal{
		{"valid", j, []byte(`{"peer_id":"` + pa + `"}`)},
		{"valid-12D3", j, []byte(`{"peer_id": "` + peer.Encode(peerC) + `"}` + "\n")},
		{"valid-extra-field", j, []byte(`{"x":1,"peer_id":"` + pa + `"}`)},
		{"valid-no-content-type", "", []byte(`{"peer_id":"` + pa + `"}`)},
		{"garbage-peer", j, []byte(`{"peer_id":"notapeer"}`)},
		{"wrong-field-type", j, []byte(`{"peer_id":5}`)},
		{"peer-in-array", j, []byte(`{"peer_id":["` + pa + `"]}`)},
		{"missing-field", j, []byte(`{"peer":"` + pa + `"}`)},
		{"truncated", j, []byte(`{"peer_id":"` + pa[:20])},
		{"empty", j, nil},
		{"null", j, []byte(`null`)},
		{"array", j, []byte(`["` + pa + `"]`)},
		{"bare-string", j, []byte(`"` + pa + `"`)},
		{"not-json", j, []byte(`peer_id=` + pa)},
		{"trailing-data", j, []byte(`{"peer_id":"` + pa + `"} trailing`)},
	}
}

// ---------------------------------------------------------------------------
// request construction

var tplVar = varRe

func instantiate(tpl string, vals map[string]string) string {
	return tplVar.ReplaceAllStringFunc(tpl, func(m string) string {
		name := tplVar.FindStringSubmatch(m)[1]
		return vals[name]
	})
}

func baseVals() map[string]string {
	return map[string]string{"hash": cidV0.String(), "peer": peer.Encode(peerA), "keyType": "ipfs", "path": cidV0.String() + "/a/b", "name": "ping"}
}

type gen struct {
	one, carB bodyVal
	peerAdd   bodyVal
}

func newGen() *gen {
	return &gen{one: multipartBody(false), carB: carBody(), peerAdd: peerAddBodies()[0]}
}

// request builds the default request for path (template instance) p with
// options: the route's natural body is attached for body-carrying methods.
func (g *gen) request(method, tpl, path string, opts []optVal) reqSpec {
	rs := reqSpec{Method: method, Target: path + query(opts...), Headers: map[string]string{}}
	if method == "POST" || method == "PUT" || method == "PATCH" {
		switch tpl {
		case "/peers":
			g.setBody(&rs, g.peerAdd)
		case "/add":
			b := g.one
			for _, o := range opts {
				if o.Opt == "format" && o.Val == "car" {
					b = g.carB
				}
			}
			g.setBody(&rs, b)
		}
	}
	return rs
}

func (g *gen) setBody(rs *reqSpec, b bodyVal) {
	if b.CType != "" {
		rs.Headers["Content-Type"] = b.CType
	} else {
		delete(rs.Headers, "Content-Type")
	}
	rs.Headers["X-C11-Body"] = b.Label
	rs.Body = base64.StdEncoding.EncodeToString(b.Body)
	rs.BodyB64 = true
	if len(b.Body) == 0 {
		rs.Body, rs.BodyB64 = "", false
	}
}

func unknownPaths() []pv {
	v0 := cidV0.String()
	return []pv{
		{"/", "root"}, {"/foo", "/foo"}, {"/api/v0/pin/add?arg=" + v0, "ipfs-api-style"}, {"/pins/a/b/c", "/pins/a/b/c"},
		{"/peers/" + peer.Encode(peerA) + "/x", "/peers/{peer}/x"}, {"/ID", "/ID (case)"}, {"/id/x", "/id/x"},
		{"/pins/" + v0 + "/recover/x", "/pins/{hash}/recover/x"}, {"/health", "/health"}, {"/monitor", "/monitor"},
		{"/allocations/" + v0 + "/x", "/allocations/{hash}/x"}, {"/add/x", "/add/x"}, {"//id", "//id (unclean)"},
		{"/pins/../id", "/pins/../id (unclean)"}, {"/id/", "/id/ (trailing slash)"}, {"/pins/" + v0 + "/", "/pins/{hash}/ (trailing slash)"},
		{"/i%64", "/i%64 (escaped /id)"}, {"/version?local=true", "/version?local=true"},
	}
}

// ---------------------------------------------------------------------------

func TestREST(t *testing.T) {
	servers := map[string]*server{}
	for _, cc := range credCfgs {
		s := newServer(t, cc)
		defer s.close()
		servers[cc.Name] = s
	}
	s0 := servers["none"]
	routes, err := walkRoutes(s0.router)
	if err != nil || len(routes) == 0 {
		t.Fatal("cannot walk the live router: ", err)
	}
	// all configurations must expose the same table (the enumeration below
	// uses each server's own table anyway)
	tables := map[string][]*routeInfo{}
	for n, s := range servers {
		rt, err := walkRoutes(s.router)
		if err != nil {
			t.Fatal(err)
		}
		tables[n] = rt
	}
	var routeKeys []string
	for _, r := range routes {
		routeKeys = append(routeKeys, r.key())
	}
	R.Note("routes_walked", routeKeys)
	g := newGen()

	// distinct path templates in table order
	var templates []string
	seenT := map[string]bool{}
	for _, r := range routes {
		if !seenT[r.Template] {
			seenT[r.Template] = true
			templates = append(templates, r.Template)
		}
	}

	// ---- 1. every template x every method x path-variable alphabet --------
	sec := R.Sec("route x method x path-variable values")
	sec.Bounds["methods"] = allMethods
	sec.Bounds["templates"] = len(templates)
	sec.Bounds["hash_values"] = len(hashAlphabet())
	sec.Bounds["peer_values"] = len(peerAlphabet())
	sec.Bounds["keytype_path_values"] = len(pathAlphabet())
	sec.Bounds["metric_name_values"] = len(nameAlphabet())
	sec.Bounds["unknown_paths"] = len(unknownPaths())
	for _, tpl := range templates {
		type inst struct{ path, label string }
		var insts []inst
		switch {
		case strings.Contains(tpl, "{hash}"):
			for _, h := range hashAlphabet() {
				v := baseVals()
				v["hash"] = h.Raw
				insts = append(insts, inst{instantiate(tpl, v), "hash=" + h.Label})
			}
		case strings.Contains(tpl, "{peer}"):
			for _, p := range peerAlphabet() {
				v := baseVals()
				v["peer"] = p.Raw
				insts = append(insts, inst{instantiate(tpl, v), "peer=" + p.Label})
			}
		case strings.Contains(tpl, "{keyType"):
			for _, kp := range pathAlphabet() {
				v := baseVals()
				v["keyType"], v["path"] = kp[0].Raw, kp[1].Raw
				insts = append(insts, inst{instantiate(tpl, v), "path=/" + kp[0].Label + "/" + kp[1].Label})
			}
		case strings.Contains(tpl, "{name}"):
			for _, n := range nameAlphabet() {
				v := baseVals()
				v["name"] = n.Raw
				insts = append(insts, inst{instantiate(tpl, v), "name=" + n.Label})
			}
		default:
			insts = []inst{{tpl, "-"}}
		}
		for _, in := range insts {
			for _, m := range allMethods {
				evaluate(s0, routes, g.request(m, tpl, in.path, nil), caseMeta{sec.Name, tpl + " " + in.label, "-"})
			}
		}
	}
	for _, up := range unknownPaths() {
		for _, m := range allMethods {
			evaluate(s0, routes, g.request(m, "", up.Raw, nil), caseMeta{sec.Name, "unknown " + up.Label, "-"})
		}
	}
	// OPTIONS as a CORS preflight (the CORS layer sits between auth and router)
	for _, tpl := range templates {
		rs := g.request("OPTIONS", tpl, instantiate(tpl, baseVals()), nil)
		rs.Headers["Origin"] = "http://example.org"
		rs.Headers["Access-Control-Request-Method"] = "POST"
		evaluate(s0, routes, rs, caseMeta{sec.Name, tpl + " cors-preflight", "-"})
	}

	// ---- 2. options: one at a time, then all pairs ------------------------
	common := pinOptAlphabet()
	addOnly := addOptAlphabet()
	sec1 := R.Sec("options one-at-a-time (every route, own method)")
	sec2 := R.Sec("option pairs")
	sec3 := R.Sec("option triples")
	var tripleRoutes []string
	sec1.Bounds["pin_and_common_option_values"] = len(common)
	sec1.Bounds["add_only_option_values"] = len(addOnly)
	var pairRouteKeys []string
	baseCids := []string{cidV0.String(), cidV1.String()}
	// POST /add cases are collected and evaluated in a child process
	var addBatch []workItem
	ev1 := func(r *routeInfo, rs reqSpec, cm caseMeta) {
		if r.Name == "Add" {
			addBatch = append(addBatch, workItem{rs, cm})
			return
		}
		evaluate(s0, routes, rs, cm)
	}
	for _, r := range routes {
		alpha := common
		if r.Name == "Add" {
			alpha = append(append([]optVal{}, common...), addOnly...)
		}
		for _, bc := range baseCids {
			v := baseVals()
			v["hash"] = bc
			v["path"] = bc + "/a/b"
			path := instantiate(r.Template, v)
			if bc != baseCids[0] && path == instantiate(r.Template, baseVals()) {
				continue
			}
			bl := ""
			if bc != baseCids[0] {
				bl = "base-cid=v1 "
			}
			for _, o := range alpha {
				ev1(r, g.request(r.Method, r.Template, path, []optVal{o}), caseMeta{sec1.Name, bl + optLabel(o), "-"})
			}
			if bc == baseCids[0] {
				pairRouteKeys = append(pairRouteKeys, r.key())
			}
			for i := 0; i < len(alpha); i++ {
				for j := i + 1; j < len(alpha); j++ {
					if alpha[i].Opt == alpha[j].Opt {
						continue
					}
					ops := []optVal{alpha[i], alpha[j]}
					ev1(r, g.request(r.Method, r.Template, path, ops), caseMeta{sec2.Name, bl + optLabel(ops...), "-"})
				}
			}
			if ev.Thorough() && bc == baseCids[0] && (r.Name == "Pin" || r.Name == "PinPath" || r.Name == "Add") {
				tri := alpha
				if r.Name == "Add" {
					// add-only options, one valid and one undecodable value each
					// (every /add closes its connection: keep the count moderate)
					tri = nil
					seen := map[string]int{}
					for _, o := range addOnly {
						bad := strings.HasPrefix(o.Label, "not-a-") || o.Label == "unknown-word"
						bit := 1
						if bad {
							bit = 2
						}
						if seen[o.Opt]&bit == 0 {
							seen[o.Opt] |= bit
							tri = append(tri, o)
						}
					}
				}
				tripleRoutes = append(tripleRoutes, r.key())
				for i := 0; i < len(tri); i++ {
					for j := i + 1; j < len(tri); j++ {
						for k := j + 1; k < len(tri); k++ {
							if tri[i].Opt == tri[j].Opt || tri[j].Opt == tri[k].Opt || tri[i].Opt == tri[k].Opt {
								continue
							}
							ops := []optVal{tri[i], tri[j], tri[k]}
							ev1(r, g.request(r.Method, r.Template, path, ops), caseMeta{sec3.Name, optLabel(ops...), "-"})
						}
					}
				}
			}
		}
	}
	sec2.Bounds["post_add_cases_run_in_child_process"] = len(addBatch)
	runInChild(t, addBatch)
	sort.Strings(pairRouteKeys)
	sec2.Bounds["routes_with_all_pairs"] = pairRouteKeys
	sec2.Bounds["base_cids"] = len(baseCids)
	sec3.Bounds["routes_with_all_triples"] = tripleRoutes
	if !ev.Thorough() {
		sec3.Bounds["note"] = "thorough tier only"
	}

	// ---- 3. bodies --------------------------------------------------------
	sec4 := R.Sec("bodies (POST /peers, POST /add)")
	sec4.Bounds["peer_add_bodies"] = len(peerAddBodies())
	sec4.Bounds["add_bodies"] = len(addBodies())
	for _, b := range peerAddBodies() {
		rs := reqSpec{Method: "POST", Target: "/peers", Headers: map[string]string{}}
		g.setBody(&rs, b)
		evaluate(s0, routes, rs, caseMeta{sec4.Name, "peers body=" + b.Label, "-"})
	}
	for _, b := range addBodies() {
		for _, o := range [][]optVal{nil, {{"stream-channels", "false", "false"}}, {{"replication-min", "abc", "not-a-number"}}, {{"layout", "weird", "unknown-word"}}} {
			rs := reqSpec{Method: "POST", Target: "/add" + query(o...), Headers: map[string]string{}}
			g.setBody(&rs, b)
			evaluate(s0, routes, rs, caseMeta{sec4.Name, "add body=" + b.Label + " " + optLabel(o...), "-"})
		}
	}

	// ---- 4. scripted RPC failures ------------------------------------------
	sec5 := R.Sec("rpc answer modes (every route, valid request)")
	sec5.Bounds["modes"] = []string{"ok", "err", "notfound"}
	for _, r := range routes {
		for _, mode := range []string{"err", "notfound"} {
			for _, o := range [][]optVal{nil, {{"local", "true", "true"}}, {{"stream-channels", "false", "false"}}} {
				rs := g.request(r.Method, r.Template, instantiate(r.Template, baseVals()), o)
				rs.Mode = mode
				evaluate(s0, routes, rs, caseMeta{sec5.Name, "valid " + optLabel(o...), "-"})
			}
		}
	}

	// ---- 5. credentials ------------------------------------------------------
	sec6 := R.Sec("credential configs x presented credentials x every route/method and unknown paths")
	b64 := func(s string) string { return base64.StdEncoding.EncodeToString([]byte(s)) }
	type cred struct {
		Kind string
		Has  bool
		Hdr  string
	}
	creds := []cred{
		{"no-header", false, ""},
		{"malformed:scheme-only", true, "Basic"},
		{"malformed:empty-token", true, "Basic "},
		{"malformed:not-base64", true, "Basic !!!"},
		{"malformed:no-colon", true, "Basic " + b64("alice")},
		{"malformed:bearer-scheme", true, "Bearer " + b64("alice:wonder:land")},
		{"malformed:digest-scheme", true, `Digest username="alice"`},
		{"malformed:raw-userpass", true, "alice:wonder:land"},
		{"wrong-user", true, "Basic " + b64("mallory:wonder:land")},
		{"wrong-user:case", true, "Basic " + b64("Alice:wonder:land")},
		{"wrong-user:empty", true, "Basic " + b64(":wonder:land")},
		{"wrong-password", true, "Basic " + b64("alice:wrong")},
		{"wrong-password:empty", true, "Basic " + b64("alice:")},
		{"wrong-password:prefix-up-to-colon", true, "Basic " + b64("alice:wonder")},
		{"wrong-password:trailing-space", true, "Basic " + b64("alice:wonder:land ")},
		{"wrong-password:other-users", true, "Basic " + b64("alice:builder")},
		{"wrong-user:empty-password", true, "Basic " + b64("mallory:")},
		{"wrong-user:empty-user-and-password", true, "Basic " + b64(":")},
		{"wrong-user:other-users-password", true, "Basic " + b64("mallory:builder")},
		{"wrong-user:whitespace", true, "Basic " + b64(" alice:wonder:land")},
		{"wrong-user:known-user-as-prefix", true, "Basic " + b64("alic:wonder:land")},
		{"wrong-user:known-user-plus-suffix", true, "Basic " + b64("alicex:wonder:land")},
		{"other-user-with-first-users-password", true, "Basic " + b64("bob:wonder:land")},
		{"right:alice", true, "Basic " + b64("alice:wonder:land")},
		{"right-in-two-user-config:bob", true, "Basic " + b64("bob:builder")},
	}
	var kinds []string
	for _, c := range creds {
		kinds = append(kinds, c.Kind)
	}
	sec6.Bounds["configs"] = []string{"none", "one user", "two users", "none + request tracing", "one user + request tracing"}
	sec6.Bounds["presented"] = kinds
	for _, cc := range credCfgs {
		s := servers[cc.Name]
		rt := tables[cc.Name]
		for _, c := range creds {
			send := func(rs reqSpec, label string) {
				if c.Has {
					rs.Headers["Authorization"] = c.Hdr
				}
				evaluate(s, rt, rs, caseMeta{sec6.Name, label, c.Kind})
			}
			for _, tpl := range templates {
				for _, m := range allMethods {
					send(g.request(m, tpl, instantiate(tpl, baseVals()), nil), tpl)
				}
			}
			for _, up := range unknownPaths() {
				for _, m := range allMethods {
					send(g.request(m, "", up.Raw, nil), "unknown "+up.Label)
				}
			}
			// a malformed and an option-carrying request must not get past the gate either
			send(g.request("POST", "/pins/{hash}", "/pins/notacid", nil), "/pins/{hash} hash=garbage")
			send(g.request("POST", "/pins/{hash}", "/pins/"+cidV0.String(), []optVal{{"replication-min", "abc", "not-a-number"}}), "/pins/{hash} replication-min=not-a-number")
			send(g.request("POST", "/pins/{hash}", "/pins/"+cidV0.String(), []optVal{{"name", "n", "plain"}, {"mode", "recursive", "recursive"}}), "/pins/{hash} name&mode")
			pf := g.request("OPTIONS", "/pins/{hash}", "/pins/"+cidV0.String(), nil)
			pf.Headers["Origin"] = "http://example.org"
			pf.Headers["Access-Control-Request-Method"] = "POST"
			send(pf, "/pins/{hash} cors-preflight")
		}
	}
	R.Sample(map[string]interface{}{"example_case": fmt.Sprintf("POST /pins/%s?%s", cidV0, "replication-min=abc"), "expected": "4xx and no RPC call and one JSON document"})
}
