package c11

// Reference model: what a request means according to the property text and
// the API's documented vocabulary. Written without looking at how the handlers
// are coded: it is driven by the live router's own path regexps, by the
// third-party decoders that define "decodable" (go-cid, go-libp2p-core/peer,
// go-path, go-multiaddr, strconv, time) and by small name tables.

import (
	"encoding/json"
	"fmt"
	"mime"
	"net/url"
	"regexp"
	"sort"
	"strconv"
	"strings"
	"time"

	mux "github.com/gorilla/mux"
	cid "github.com/ipfs/go-cid"
	gopath "github.com/ipfs/go-path"
	"github.com/ipfs/ipfs-cluster/api"
	peer "github.com/libp2p/go-libp2p-core/peer"
	multiaddr "github.com/multiformats/go-multiaddr"
)

type class int

const (
	wellformed class = iota
	silent           // the text does not say whether this must be refused
	malformed        // must be refused: 4xx and no operation
)

func (c class) String() string { return [...]string{"wellformed", "silent", "malformed"}[c] }

func worst(a, b class) class {
	if a > b {
		return a
	}
	return b
}

// routeInfo is one entry of the live route table.
type routeInfo struct {
	Name     string
	Method   string
	Template string
	re       *regexp.Regexp
	Vars     []string
}

// key is "METHOD /template" with the variables' regexps stripped (they contain '|').
func (r *routeInfo) key() string {
	return r.Method + " " + varRe.ReplaceAllString(r.Template, "{$1}")
}

var varRe = regexp.MustCompile(`\{([a-zA-Z]+)(?::[^}]*)?\}`)

// walkRoutes reads the route table out of the live router.
func walkRoutes(router *mux.Router) ([]*routeInfo, error) {
	var out []*routeInfo
	err := router.Walk(func(rt *mux.Route, _ *mux.Router, _ []*mux.Route) error {
		tpl, err := rt.GetPathTemplate()
		if err != nil {
			return err
		}
		res, err := rt.GetPathRegexp()
		if err != nil {
			return err
		}
		ms, err := rt.GetMethods()
		if err != nil || len(ms) == 0 {
			return fmt.Errorf("route %s has no method matcher", tpl)
		}
		re, err := regexp.Compile(res)
		if err != nil {
			return err
		}
		for _, m := range ms {
			ri := &routeInfo{Name: rt.GetName(), Method: m, Template: tpl, re: re}
			for _, v := range varRe.FindAllStringSubmatch(tpl, -1) {
				ri.Vars = append(ri.Vars, v[1])
			}
			out = append(out, ri)
		}
		return nil
	})
	return out, err
}

type matchRes struct {
	Route    *routeInfo
	Vars     map[string]string
	Redirect bool // router-level redirect expected (strict slash / unclean path)
}

// unclean reports whether the router's path cleaning would rewrite p.
func unclean(p string) bool {
	return strings.Contains(p, "//") || strings.Contains(p, "/./") || strings.Contains(p, "/../") ||
		strings.HasSuffix(p, "/.") || strings.HasSuffix(p, "/..")
}

// match resolves (method, decoded path) with the live regexps, first match in
// table order wins (the router's documented rule).
func match(routes []*routeInfo, method, path string) matchRes {
	if unclean(path) {
		return matchRes{Redirect: true}
	}
	for _, r := range routes {
		if r.Method != method {
			continue
		}
		m := r.re.FindStringSubmatch(path)
		if m == nil {
			continue
		}
		res := matchRes{Route: r, Vars: map[string]string{}}
		for i, v := range r.Vars {
			if i+1 < len(m) {
				res.Vars[v] = m[i+1]
			}
		}
		if strings.HasSuffix(path, "/") != strings.HasSuffix(r.Template, "/") {
			res.Redirect = true
		}
		return res
	}
	return matchRes{}
}

// ---------------------------------------------------------------------------
// pin options

type expOpts struct {
	Name       string
	Mode       api.PinMode
	RMin, RMax int
	ShardSize  uint64
	UserAllocs []peer.ID
	ExpireAt   time.Time     // exact instant when set by expire-at
	ExpireIn   time.Duration // >0 when set by expire-in
	Meta       map[string]string
	PinUpdate  cid.Cid
	Origins    []string
	// fields the oracle must not compare
	skip map[string]bool
}

type optAnalysis struct {
	Class   class
	Invalid []string // option names with undecodable values
	Silent  []string // option names in the silent class
	Present []string // pin-option names present (non-empty)
	E       expOpts
}

var pinOptNames = []string{"name", "mode", "replication", "replication-min", "replication-max", "shard-size",
	"user-allocations", "expire-at", "expire-in", "pin-update", "origins"}

func refPinOpts(q url.Values) optAnalysis {
	a := optAnalysis{E: expOpts{Meta: map[string]string{}, skip: map[string]bool{}}}
	e := &a.E
	inv := func(n string) { a.Invalid = append(a.Invalid, n) }
	sil := func(n string) { a.Silent = append(a.Silent, n) }
	get := func(n string) (string, bool) {
		vs, ok := q[n]
		if !ok || len(vs) == 0 || vs[0] == "" {
			return "", false
		}
		if len(vs) > 1 { // repeated option: which one counts is not specified
			sil(n)
			e.skip[n] = true
		}
		a.Present = append(a.Present, n)
		return vs[0], true
	}

	if v, ok := get("name"); ok {
		e.Name = v
	}
	if v, ok := get("mode"); ok {
		switch v {
		case "recursive":
			e.Mode = api.PinModeRecursive
		case "direct":
			e.Mode = api.PinModeDirect
		default:
			sil("mode")
			e.skip["mode"] = true
		}
	}

	type intv struct {
		present, valid bool
		v              int
	}
	geti := func(n string) intv {
		s, ok := get(n)
		if !ok {
			return intv{}
		}
		i, err := strconv.Atoi(s)
		return intv{true, err == nil, i}
	}
	rp, rmin, rmax := geti("replication"), geti("replication-min"), geti("replication-max")
	for _, x := range []struct {
		n    string
		v    intv
		dest *int
	}{{"replication-min", rmin, &e.RMin}, {"replication-max", rmax, &e.RMax}} {
		switch {
		case rp.present && rp.valid && x.v.present:
			// "replication" is shorthand for both: with both given, which wins
			// (and whether the shadowed one is still validated) is unspecified
			sil(x.n)
			e.skip[x.n] = true
		case rp.present && rp.valid:
			*x.dest = rp.v
		case x.v.present && x.v.valid:
			*x.dest = x.v.v
		case x.v.present:
			inv(x.n)
		}
	}
	if rp.present && !rp.valid {
		inv("replication")
	}

	if v, ok := get("shard-size"); ok {
		u, err := strconv.ParseUint(v, 10, 64)
		if err != nil {
			inv("shard-size")
		}
		e.ShardSize = u
	}
	if v, ok := get("user-allocations"); ok {
		for _, s := range strings.Split(v, ",") {
			p, err := peer.Decode(s)
			if err != nil {
				sil("user-allocations")
				e.skip["user-allocations"] = true
				continue
			}
			e.UserAllocs = append(e.UserAllocs, p)
		}
	}

	at, atOK := get("expire-at")
	in, inOK := get("expire-in")
	var atT time.Time
	var atErr, inErr error
	var inD time.Duration
	if atOK {
		atErr = atT.UnmarshalText([]byte(at))
	}
	if inOK {
		inD, inErr = time.ParseDuration(in)
	}
	switch {
	case atOK && inOK:
		// precedence between the two is unspecified
		e.skip["expire"] = true
		if atErr != nil && inErr != nil {
			inv("expire-at")
			inv("expire-in")
		} else {
			sil("expire-at+expire-in")
		}
	case atOK:
		if atErr != nil {
			inv("expire-at")
		}
		e.ExpireAt = atT
	case inOK:
		switch {
		case inErr != nil:
			inv("expire-in")
		case inD < time.Second:
			// a minimum duration is the handler's choice, not the text's
			sil("expire-in")
			e.skip["expire"] = true
		default:
			e.ExpireIn = inD
		}
	}

	var mkeys []string
	for k := range q {
		if strings.HasPrefix(k, "meta-") {
			mkeys = append(mkeys, k)
		}
	}
	sort.Strings(mkeys)
	for _, k := range mkeys {
		mk := strings.TrimPrefix(k, "meta-")
		if mk == "" {
			sil("meta-")
			continue
		}
		a.Present = append(a.Present, k)
		e.Meta[mk] = q[k][0]
		if len(q[k]) > 1 {
			sil(k)
			e.skip["meta"] = true
		}
	}

	if v, ok := get("pin-update"); ok {
		c, err := cid.Decode(v)
		if err != nil {
			inv("pin-update")
		}
		e.PinUpdate = c
	}
	if v, ok := get("origins"); ok {
		bad, nop2p := false, false
		for _, s := range strings.Split(v, ",") {
			m, err := multiaddr.NewMultiaddr(s)
			if err != nil {
				bad = true
				continue
			}
			if _, err := m.ValueForProtocol(multiaddr.P_P2P); err != nil {
				nop2p = true
			}
			e.Origins = append(e.Origins, m.String())
		}
		switch {
		case bad:
			inv("origins")
		case nop2p:
			// requiring a peer ID in an origin is a handler rule
			sil("origins")
			e.skip["origins"] = true
		}
	}

	sort.Strings(a.Invalid)
	sort.Strings(a.Silent)
	switch {
	case len(a.Invalid) > 0:
		a.Class = malformed
	case len(a.Silent) > 0:
		a.Class = silent
	}
	return a
}

// cmpOpts lists the fields in which the recorded options differ from the
// carried ones. t0/t1 bracket the request (for expire-in).
func cmpOpts(e expOpts, got api.PinOptions, t0, t1 time.Time) []string {
	var d []string
	if !e.skip["name"] && got.Name != e.Name {
		d = append(d, "Name")
	}
	if !e.skip["mode"] && got.Mode != e.Mode {
		d = append(d, "Mode")
	}
	if !e.skip["replication-min"] && got.ReplicationFactorMin != e.RMin {
		d = append(d, "ReplicationFactorMin")
	}
	if !e.skip["replication-max"] && got.ReplicationFactorMax != e.RMax {
		d = append(d, "ReplicationFactorMax")
	}
	if !e.skip["shard-size"] && got.ShardSize != e.ShardSize {
		d = append(d, "ShardSize")
	}
	if !e.skip["user-allocations"] {
		if len(got.UserAllocations) != len(e.UserAllocs) {
			d = append(d, "UserAllocations")
		} else {
			for i := range e.UserAllocs {
				if got.UserAllocations[i] != e.UserAllocs[i] {
					d = append(d, "UserAllocations")
					break
				}
			}
		}
	}
	if !e.skip["expire"] {
		switch {
		case e.ExpireIn > 0:
			if got.ExpireAt.Before(t0.Add(e.ExpireIn)) || got.ExpireAt.After(t1.Add(e.ExpireIn)) {
				d = append(d, "ExpireAt")
			}
		default:
			if !got.ExpireAt.Equal(e.ExpireAt) {
				d = append(d, "ExpireAt")
			}
		}
	}
	if !e.skip["meta"] {
		if len(got.Metadata) != len(e.Meta) {
			d = append(d, "Metadata")
		} else {
			for k, v := range e.Meta {
				if gv, ok := got.Metadata[k]; !ok || gv != v {
					d = append(d, "Metadata")
					break
				}
			}
		}
	}
	if !e.skip["pin-update"] && !got.PinUpdate.Equals(e.PinUpdate) {
		d = append(d, "PinUpdate")
	}
	if !e.skip["origins"] {
		if len(got.Origins) != len(e.Origins) {
			d = append(d, "Origins")
		} else {
			for i := range e.Origins {
				if got.Origins[i] == nil || got.Origins[i].String() != e.Origins[i] {
					d = append(d, "Origins")
					break
				}
			}
		}
	}
	return d
}

// ---------------------------------------------------------------------------
// other option vocabularies

// local: "true" => local variant, "false"/absent => cluster-wide; anything
// else is not in the vocabulary (silent).
func refLocal(q url.Values) (local bool, c class) {
	vs := q["local"]
	if len(vs) == 0 || vs[0] == "" {
		return false, wellformed
	}
	if len(vs) > 1 {
		return false, silent
	}
	switch vs[0] {
	case "true":
		return true, wellformed
	case "false":
		return false, wellformed
	}
	return false, silent
}

var statusNames = map[string]api.TrackerStatus{
	"cluster_error": api.TrackerStatusClusterError, "pin_error": api.TrackerStatusPinError,
	"unpin_error": api.TrackerStatusUnpinError, "error": api.TrackerStatusError,
	"pinned": api.TrackerStatusPinned, "pinning": api.TrackerStatusPinning,
	"unpinning": api.TrackerStatusUnpinning, "unpinned": api.TrackerStatusUnpinned,
	"remote": api.TrackerStatusRemote, "pin_queued": api.TrackerStatusPinQueued,
	"unpin_queued": api.TrackerStatusUnpinQueued, "queued": api.TrackerStatusQueued,
	"sharded": api.TrackerStatusSharded, "unexpectedly_unpinned": api.TrackerStatusUnexpectedlyUnpinned,
}

func refStatusFilter(q url.Values) (api.TrackerStatus, class) {
	vs := q["filter"]
	if len(vs) == 0 || vs[0] == "" {
		return api.TrackerStatusUndefined, wellformed
	}
	if len(vs) > 1 {
		return 0, silent
	}
	var st api.TrackerStatus
	known, unknown := 0, 0
	for _, n := range strings.Split(vs[0], ",") {
		if b, ok := statusNames[n]; ok {
			st |= b
			known++
		} else {
			unknown++
		}
	}
	switch {
	case unknown == 0:
		return st, wellformed
	case known == 0:
		return 0, malformed
	}
	return 0, silent // mixed known+unknown names
}

var pinTypeNames = map[string]api.PinType{
	"pin": api.DataType, "meta-pin": api.MetaType, "clusterdag-pin": api.ClusterDAGType,
	"shard-pin": api.ShardType, "all": api.AllType,
}

func refTypeFilter(q url.Values) (api.PinType, class) {
	vs := q["filter"]
	if len(vs) == 0 || vs[0] == "" {
		return api.AllType, wellformed
	}
	if len(vs) > 1 {
		return 0, silent
	}
	var t api.PinType
	known, unknown := 0, 0
	for _, n := range strings.Split(vs[0], ",") {
		if b, ok := pinTypeNames[n]; ok {
			t |= b
			known++
		} else {
			unknown++
		}
	}
	switch {
	case unknown == 0:
		return t, wellformed
	case known == 0:
		return 0, malformed
	}
	return 0, silent
}

// add options (besides the pin options)
var addBoolOpts = []string{"local", "recursive", "hidden", "wrap-with-directory", "shard", "progress", "raw-leaves", "stream-channels", "nocopy"}

type addAnalysis struct {
	Class    class
	Invalid  []string
	Silent   []string
	Shard    bool
	Stream   bool
	Format   string
	WillFail bool // options that are syntactically fine but make the import itself fail are silent
}

func refAddOpts(q url.Values) addAnalysis {
	a := addAnalysis{Stream: true}
	first := func(n string) (string, bool) {
		vs := q[n]
		if len(vs) == 0 || vs[0] == "" {
			return "", false
		}
		if len(vs) > 1 {
			a.Silent = append(a.Silent, n)
		}
		return vs[0], true
	}
	if v, ok := first("layout"); ok && v != "trickle" && v != "balanced" {
		a.Invalid = append(a.Invalid, "layout")
	}
	if v, ok := first("format"); ok {
		if v != "car" && v != "unixfs" {
			a.Invalid = append(a.Invalid, "format")
		}
		a.Format = v
	}
	for _, n := range addBoolOpts {
		v, ok := first(n)
		if !ok {
			continue
		}
		b, err := strconv.ParseBool(v)
		if err != nil {
			a.Invalid = append(a.Invalid, n)
			continue
		}
		switch n {
		case "shard":
			a.Shard = b
		case "stream-channels":
			a.Stream = b
		case "nocopy":
			if b {
				a.Silent = append(a.Silent, n) // only meaningful for URL sources
			}
		}
	}
	if v, ok := first("cid-version"); ok {
		i, err := strconv.Atoi(v)
		switch {
		case err != nil:
			a.Invalid = append(a.Invalid, "cid-version")
		case i != 0 && i != 1:
			a.Silent = append(a.Silent, "cid-version")
		}
	}
	if v, ok := first("chunker"); ok {
		if m, _ := regexp.MatchString(`^size-[1-9][0-9]{2,6}$`, v); !m {
			a.Silent = append(a.Silent, "chunker")
		}
	}
	if v, ok := first("hash"); ok && v != "sha2-256" {
		// other hash functions need CIDv1; whether the API upgrades the
		// version by itself is not specified
		if cv, _ := first("cid-version"); v != "sha2-512" || cv != "1" {
			a.Silent = append(a.Silent, "hash")
		}
	}
	if a.Format == "car" {
		if w, _ := first("wrap-with-directory"); w != "" {
			if b, err := strconv.ParseBool(w); err == nil && b {
				a.Silent = append(a.Silent, "format+wrap-with-directory")
			}
		}
	}
	sort.Strings(a.Invalid)
	sort.Strings(a.Silent)
	switch {
	case len(a.Invalid) > 0:
		a.Class = malformed
	case len(a.Silent) > 0:
		a.Class = silent
	}
	return a
}

// ---------------------------------------------------------------------------
// per-request expectation

type expectation struct {
	Route      *routeInfo
	Class      class
	InputClass string // part of violation keys: what is wrong / special in the input
	// for wellformed/silent requests: the operation
	Calls      []string // exact call-name sequence (non-add routes); alternatives separated in AltCalls
	AltCalls   [][]string
	CheckArg   func(c call, t0, t1 time.Time) []string // mismatching fields of the operation's argument
	CheckResp  func(o obs) string                      // "" or a symptom
	IsAdd      bool
	Add        addAnalysis
	PO         optAnalysis // pin-option analysis of the query
	Stream     bool        // a sequence of JSON documents is the specified body
	CarriesOpt bool
	ModeDirect bool // mode=direct validly requested on a route that carries it in a Pin
	NoSpec     bool
}

func joinPlus(s []string) string { return strings.Join(s, "+") }

// expect computes what the property demands for a request that the reference
// matcher resolved to route m.Route.
func expect(m matchRes, q url.Values, ctype string, body []byte) expectation {
	r := m.Route
	ex := expectation{Route: r, InputClass: "valid"}
	po := refPinOpts(q)
	ex.PO = po

	bad := func(what string) expectation {
		ex.Class = malformed
		ex.InputClass = what
		return ex
	}
	// labels of what is undecodable / unspecified in the options; composed
	// into InputClass by fin()
	var inv, sil []string
	fin := func() expectation {
		sort.Strings(inv)
		sort.Strings(sil)
		switch {
		case len(inv) > 0:
			// keyed by the first undecodable option only (keeps keys few and stable)
			ex.InputClass = "opt-invalid:" + inv[0]
		case len(sil) > 0:
			ex.InputClass = "opt-silent:" + joinPlus(sil)
		}
		return ex
	}
	// pin options on a route: carried => they decide; not carried => an
	// undecodable one may be refused or ignored (silent)
	applyPinOpts := func(carried bool) {
		ex.CarriesOpt = carried
		switch po.Class {
		case malformed:
			if carried {
				ex.Class = worst(ex.Class, malformed)
			} else {
				ex.Class = worst(ex.Class, silent)
			}
		case silent:
			ex.Class = worst(ex.Class, silent)
		}
		inv = append(inv, po.Invalid...)
		sil = append(sil, po.Silent...)
	}
	localVariant := func(global, local string) {
		l, c := refLocal(q)
		switch {
		case c == silent:
			ex.Class = worst(ex.Class, silent)
			sil = append(sil, "local")
			ex.AltCalls = [][]string{{global}, {local}}
		case l:
			ex.Calls = []string{local}
		default:
			ex.Calls = []string{global}
		}
	}
	cidArg := func(want cid.Cid) func(call, time.Time, time.Time) []string {
		return func(c call, _, _ time.Time) []string {
			got, ok := c.Arg.(cid.Cid)
			if !ok || !got.Equals(want) {
				return []string{"Cid"}
			}
			return nil
		}
	}
	noArg := func(c call, _, _ time.Time) []string {
		if _, ok := c.Arg.(struct{}); !ok {
			return []string{"arg"}
		}
		return nil
	}

	switch r.Name {
	case "ID", "Version", "Peers", "ConnectionGraph", "Alerts":
		n := map[string]string{"ID": "ID", "Version": "Version", "Peers": "Peers", "ConnectionGraph": "ConnectGraph", "Alerts": "Alerts"}[r.Name]
		ex.Calls = []string{"Cluster." + n}
		ex.CheckArg = noArg
		applyPinOpts(false)
	case "MetricNames":
		ex.Calls = []string{"PeerMonitor.MetricNames"}
		ex.CheckArg = noArg
		applyPinOpts(false)
	case "Metrics":
		name := m.Vars["name"]
		ex.Calls = []string{"PeerMonitor.LatestMetrics"}
		ex.CheckArg = func(c call, _, _ time.Time) []string {
			if s, ok := c.Arg.(string); !ok || s != name {
				return []string{"name"}
			}
			return nil
		}
		applyPinOpts(false)
	case "PeerAdd":
		pid, c, what := refPeerAddBody(body)
		if c == malformed {
			return bad("body-invalid:" + what)
		}
		if c == silent {
			ex.Class = silent
			ex.InputClass = "body-silent:" + what
		}
		ex.Calls = []string{"Cluster.PeerAdd"}
		ex.CheckArg = func(c call, _, _ time.Time) []string {
			if p, ok := c.Arg.(peer.ID); !ok || p != pid {
				return []string{"peer"}
			}
			return nil
		}
		applyPinOpts(false)
	case "PeerRemove":
		pid, err := peer.Decode(m.Vars["peer"])
		if err != nil {
			return bad("pathvar-invalid:peer")
		}
		ex.Calls = []string{"Cluster.PeerRemove"}
		ex.CheckArg = func(c call, _, _ time.Time) []string {
			if p, ok := c.Arg.(peer.ID); !ok || p != pid {
				return []string{"peer"}
			}
			return nil
		}
		applyPinOpts(false)
	case "Allocations":
		mask, c := refTypeFilter(q)
		if c == malformed {
			return bad("opt-invalid:filter")
		}
		ex.Calls = []string{"Cluster.Pins"}
		ex.CheckArg = noArg
		if c == silent {
			ex.Class = silent
			sil = append(sil, "filter")
		} else {
			ex.CheckResp = func(o obs) string {
				if o.Status != 200 || len(o.docs) != 1 {
					return ""
				}
				var pins []*api.Pin
				if err := json.Unmarshal(o.docs[0], &pins); err != nil {
					return "response-not-a-pin-list"
				}
				var want []string
				for _, p := range ansPins() {
					if p.Type&mask != 0 {
						want = append(want, p.Cid.String())
					}
				}
				var got []string
				for _, p := range pins {
					got = append(got, p.Cid.String())
				}
				if strings.Join(got, ",") != strings.Join(want, ",") {
					return "filter-not-applied"
				}
				return ""
			}
		}
		applyPinOpts(false)
	case "StatusAll":
		st, c := refStatusFilter(q)
		if c == malformed {
			return bad("opt-invalid:filter")
		}
		localVariant("Cluster.StatusAll", "Cluster.StatusAllLocal")
		if c == silent {
			ex.Class = worst(ex.Class, silent)
			sil = append(sil, "filter")
		} else {
			ex.CheckArg = func(c call, _, _ time.Time) []string {
				if got, ok := c.Arg.(api.TrackerStatus); !ok || got != st {
					return []string{"filter"}
				}
				return nil
			}
		}
		applyPinOpts(false)
	case "RecoverAll":
		localVariant("Cluster.RecoverAll", "Cluster.RecoverAllLocal")
		ex.CheckArg = noArg
		applyPinOpts(false)
	case "RepoGC":
		localVariant("Cluster.RepoGC", "Cluster.RepoGCLocal")
		ex.CheckArg = noArg
		applyPinOpts(false)
	case "Allocation", "Status", "Recover":
		c, err := cid.Decode(m.Vars["hash"])
		if err != nil {
			return bad("pathvar-invalid:hash")
		}
		switch r.Name {
		case "Allocation":
			ex.Calls = []string{"Cluster.PinGet"}
		case "Status":
			localVariant("Cluster.Status", "Cluster.StatusLocal")
		case "Recover":
			localVariant("Cluster.Recover", "Cluster.RecoverLocal")
		}
		ex.CheckArg = cidArg(c)
		applyPinOpts(false)
	case "Pin", "Unpin":
		c, err := cid.Decode(m.Vars["hash"])
		if err != nil {
			return bad("pathvar-invalid:hash")
		}
		carried := r.Name == "Pin"
		ex.Calls = []string{"Cluster." + r.Name}
		ex.CheckArg = func(cl call, t0, t1 time.Time) []string {
			p, ok := cl.Arg.(api.Pin)
			if !ok {
				return []string{"arg-type"}
			}
			var d []string
			if !p.Cid.Equals(c) {
				d = append(d, "Cid")
			}
			if carried {
				d = append(d, cmpOpts(po.E, p.PinOptions, t0, t1)...)
			}
			return d
		}
		applyPinOpts(carried)
		ex.ModeDirect = carried && po.Class != malformed && !po.E.skip["mode"] && po.E.Mode == api.PinModeDirect
	case "PinPath", "UnpinPath":
		raw := "/" + m.Vars["keyType"] + "/" + m.Vars["path"]
		pp, err := gopath.ParsePath(raw)
		if err != nil {
			return bad("pathvar-invalid:path")
		}
		carried := r.Name == "PinPath"
		ex.Calls = []string{"Cluster." + r.Name}
		ex.CheckArg = func(cl call, t0, t1 time.Time) []string {
			p, ok := cl.Arg.(api.PinPath)
			if !ok {
				return []string{"arg-type"}
			}
			var d []string
			if p.Path != pp.String() {
				d = append(d, "Path")
			}
			if carried {
				d = append(d, cmpOpts(po.E, p.PinOptions, t0, t1)...)
			}
			return d
		}
		applyPinOpts(carried)
	case "Add":
		ex.IsAdd = true
		mt, params, err := mime.ParseMediaType(ctype)
		if err != nil || !strings.HasPrefix(mt, "multipart/") || params["boundary"] == "" {
			return bad("body-invalid:not-multipart")
		}
		ex.Add = refAddOpts(q)
		ex.Stream = ex.Add.Stream
		inv = append(append(inv, po.Invalid...), ex.Add.Invalid...)
		sil = append(append(sil, po.Silent...), ex.Add.Silent...)
		switch {
		case len(inv) > 0:
			ex.Class = malformed
		case len(sil) > 0:
			ex.Class = silent
		}
		ex.CarriesOpt = true
	default:
		ex.NoSpec = true
		ex.Class = silent
		ex.InputClass = "route-without-spec"
		return ex
	}
	return fin()
}

// refPeerAddBody: the body must be a JSON object {"peer_id": "<peer id>"}.
func refPeerAddBody(b []byte) (peer.ID, class, string) {
	dec := json.NewDecoder(strings.NewReader(string(b)))
	var v interface{}
	if err := dec.Decode(&v); err != nil {
		return "", malformed, "not-json"
	}
	obj, ok := v.(map[string]interface{})
	if !ok {
		return "", malformed, "not-an-object"
	}
	s, ok := obj["peer_id"].(string)
	if !ok {
		return "", malformed, "peer_id-not-a-string"
	}
	pid, err := peer.Decode(s)
	if err != nil {
		return "", malformed, "peer_id-undecodable"
	}
	var rest interface{}
	if err := dec.Decode(&rest); err == nil || err.Error() != "EOF" {
		return pid, silent, "trailing-data"
	}
	return pid, wellformed, ""
}
