package c11

import (
	"encoding/base64"
	"encoding/json"
	"fmt"
	"net/url"
	"strings"
	"time"

	cid "github.com/ipfs/go-cid"
	"github.com/ipfs/ipfs-cluster/api"
)

// credential validity by the text: a request carries valid credentials iff it
// has "Authorization: Basic base64(user:password)" for a configured pair.
func credsValid(cfg credCfg, hdr string, has bool) bool {
	if cfg.Creds == nil {
		return true
	}
	if !has {
		return false
	}
	const p = "Basic "
	if !strings.HasPrefix(hdr, p) {
		return false
	}
	b, err := base64.StdEncoding.DecodeString(hdr[len(p):])
	if err != nil {
		return false
	}
	i := strings.IndexByte(string(b), ':')
	if i < 0 {
		return false
	}
	pw, ok := cfg.Creds[string(b[:i])]
	return ok && pw == string(b[i+1:])
}

type caseMeta struct {
	SecName  string
	Label    string // input-class label for the evidence signature (alphabet labels)
	CredKind string
}

type violDetail struct {
	Section  string      `json:"section"`
	Config   string      `json:"credentials_config"`
	Request  reqSpec     `json:"request"`
	Label    string      `json:"case"`
	Route    string      `json:"resolved_route"`
	Class    string      `json:"request_class"`
	Expected interface{} `json:"expected"`
	Observed obs         `json:"observed"`
}

func statusClass(s int) string {
	if s == 0 {
		return "none"
	}
	return fmt.Sprintf("%dxx", s/100)
}

// evaluate sends one request to s and applies the oracle.
func evaluate(s *server, routes []*routeInfo, rs reqSpec, cm caseMeta) obs {
	u, err := url.Parse("http://" + s.addr + rs.Target)
	if err != nil {
		out.Broken(fmt.Sprintf("harness built an unparsable target %q: %v", rs.Target, err))
		return obs{}
	}
	q, qerr := url.ParseQuery(u.RawQuery)
	m := match(routes, rs.Method, u.Path)
	var body []byte
	if rs.BodyB64 {
		body, _ = base64.StdEncoding.DecodeString(rs.Body)
	} else {
		body = []byte(rs.Body)
	}
	authHdr, hasAuth := rs.Headers["Authorization"]
	authed := credsValid(s.cfg, authHdr, hasAuth)

	routeKey := "unknown-route " + rs.Method
	var ex expectation
	if m.Route != nil {
		routeKey = m.Route.key()
		if !m.Redirect {
			ex = expect(m, q, rs.Headers["Content-Type"], body)
			if qerr != nil { // undecodable query string: the text does not say
				ex.Class = worst(ex.Class, silent)
			}
		}
	}

	t0 := time.Now()
	o := s.do(rs)
	t1 := time.Now()
	det := func(expected interface{}) violDetail {
		return violDetail{cm.SecName, s.cfg.Name, rs, cm.Label, routeKey, ex.Class.String(), expected, o}
	}
	viol := func(input, symptom string, expected interface{}) {
		out.Violation("C11|"+routeKey+"|"+input+"|"+symptom, det(expected))
	}

	outcome := ""
	defer func() {
		nontrivial := m.Route != nil || s.cfg.Creds != nil
		sig := strings.Join([]string{cm.SecName, s.cfg.Name, cm.CredKind, routeKey, cm.Label, rs.Mode, statusClass(o.Status), strings.Join(o.CallSeq, ",")}, "|")
		out.Eval(cm.SecName, sig, nontrivial, outcome)
		if nontrivial {
			out.Sample(cm.SecName+" / "+outcome, map[string]interface{}{"config": s.cfg.Name, "method": rs.Method, "target": rs.Target,
				"presented_credentials": cm.CredKind, "resolved_route": routeKey, "class": ex.Class.String(), "status": o.Status, "rpc_calls": o.CallSeq, "json_docs": o.NDocs})
		}
	}()

	if o.TransErr != "" {
		outcome = "no-http-response"
		viol(ex.inputOr("any"), "no-http-response", "an HTTP response (the connection was dropped: handler panic?)")
		return o
	}

	// ---- authentication layer -------------------------------------------
	if !authed {
		outcome = "unauthorized"
		in := "cred:" + s.cfg.Name + "/" + cm.CredKind
		if o.Status != 401 {
			viol(in, "status-not-401", "401 and no RPC call")
		}
		if len(o.Calls) != 0 {
			viol(in, "op-performed", "401 and no RPC call")
		}
		if o.BadJSON != "" || o.NDocs > 1 {
			viol(in, "body-not-one-json-doc", "a single JSON document")
		}
		return o
	}

	// ---- body discipline (everything except the streaming /add) ---------
	streamOK := ex.IsAdd && ex.Stream && o.Status == 200
	if o.Status/100 != 3 {
		if o.BadJSON != "" {
			viol(ex.inputOr("any"), "non-json-body", "a single JSON document")
		} else if o.NDocs > 1 && !streamOK {
			viol(ex.inputOr("any"), "two-json-docs", "a single JSON document")
		}
	}

	// ---- no route / router-level redirect: nothing may be performed ------
	if m.Route == nil || m.Redirect {
		outcome = "no-route:" + statusClass(o.Status)
		if m.Redirect {
			outcome = "router-redirect:" + statusClass(o.Status)
		}
		if len(o.Calls) != 0 {
			viol("any", "op-performed", "no RPC call for a path/method that names no route")
		}
		return o
	}

	if ex.NoSpec {
		outcome = "route-without-spec"
		out.NotExhaustive("route " + routeKey + " has no operation spec in the harness: only generic oracles applied")
		return o
	}

	refused := o.Status/100 == 4 && len(o.Calls) == 0

	switch ex.Class {
	case malformed:
		outcome = "malformed:refused"
		if o.Status/100 != 4 {
			outcome = "malformed:NOT-refused"
			viol(ex.InputClass, "not-refused:"+statusClass(o.Status), "4xx and no RPC call")
		}
		if len(o.Calls) != 0 {
			outcome = "malformed:OP-PERFORMED"
			viol(ex.InputClass, "op-performed", "4xx and no RPC call")
		}
		return o
	case silent:
		if refused {
			outcome = "silent:refused"
			return o
		}
		outcome = "silent:performed"
	default:
		outcome = "wellformed:performed"
		if refused {
			outcome = "wellformed:REFUSED"
			viol(ex.InputClass, "refused-wellformed", ex.Calls)
			return o
		}
	}

	// ---- the request must have been translated into the route's operation
	if ex.IsAdd {
		checkAdd(ex, o, rs, viol)
		return o
	}
	alts := ex.AltCalls
	if alts == nil {
		alts = [][]string{ex.Calls}
	}
	okSeq := false
	for _, a := range alts {
		if strings.Join(a, ",") == strings.Join(o.CallSeq, ",") {
			okSeq = true
		}
	}
	if !okSeq {
		sym := "wrong-calls"
		if o.Status/100 == 4 && len(o.Calls) > 0 && rs.modeOK() {
			sym = "op-performed" // a refusal status, yet the operation ran
		}
		viol(ex.InputClass, sym, alts)
		return o
	}
	if rs.modeOK() && o.Status/100 == 4 {
		// a refusal status although the (successful) operation ran
		viol(ex.InputClass, "op-performed", "either 4xx and no RPC call, or the operation and its result")
		return o
	}
	if ex.CheckArg != nil {
		for _, f := range ex.CheckArg(o.Calls[0], t0, t1) {
			viol("valid", "arg-mismatch:"+f, "the operation's argument carries exactly what the request carried")
		}
	}
	if ex.ModeDirect {
		if p, ok := o.Calls[0].Arg.(api.Pin); ok && p.MaxDepth != api.PinModeDirect.ToPinDepth() {
			viol("opt:mode=direct", "max-depth-recursive", "Pin with Mode=direct and MaxDepth=0")
		}
	} else if ex.CarriesOpt && ex.Route.Name == "Pin" && !ex.PO.E.skip["mode"] {
		if p, ok := o.Calls[0].Arg.(api.Pin); ok && ex.Class == wellformed && p.MaxDepth != p.Mode.ToPinDepth() {
			viol("valid", "max-depth-inconsistent", "MaxDepth == Mode.ToPinDepth()")
		}
	}
	// status must agree with the scripted answer
	switch {
	case rs.modeOK():
		if o.Status/100 != 2 {
			viol(ex.InputClass, "status-mismatch:"+statusClass(o.Status), "2xx (the operation succeeded)")
		}
	default:
		if o.Status < 400 {
			viol(ex.InputClass, "rpc-error-not-reported:"+statusClass(o.Status), "status >= 400 (the operation failed)")
		} else if len(o.docs) == 1 {
			var e api.Error
			if json.Unmarshal(o.docs[0], &e) != nil || e.Code != o.Status {
				viol(ex.InputClass, "error-body-code-mismatch", "api.Error with code == HTTP status")
			}
		} else {
			viol(ex.InputClass, "error-without-body", "api.Error document")
		}
	}
	if ex.CheckResp != nil && rs.modeOK() {
		if sym := ex.CheckResp(o); sym != "" {
			viol(ex.InputClass, sym, "response reflects the option")
		}
	}
	return o
}

func (rs reqSpec) modeOK() bool { return rs.Mode == "" || rs.Mode == "ok" }

func (ex expectation) inputOr(d string) string {
	if ex.InputClass == "" {
		return d
	}
	return ex.InputClass
}

// checkAdd: POST /add is BlockAllocate(options) , BlockPut* , Pin(root, options).
func checkAdd(ex expectation, o obs, rs reqSpec, viol func(input, symptom string, expected interface{})) {
	want := "Cluster.BlockAllocate, IPFSConnector.BlockPut+, Cluster.Pin(root)"
	for _, c := range o.Calls {
		switch c.name() {
		case "Cluster.BlockAllocate", "IPFSConnector.BlockPut", "Cluster.Pin":
		default:
			viol(ex.InputClass, "wrong-calls", want)
			return
		}
	}
	if o.Status/100 == 4 && len(o.Calls) > 0 {
		viol(ex.InputClass, "op-performed", "4xx and no RPC call, or the add")
		return
	}
	failed := o.Status != 200 || o.Trailer != "" || !rs.modeOK()
	if ex.Add.Shard || ex.Class == silent && failed {
		return // sharded layout / imports that cannot succeed: sequence not specified
	}
	if failed {
		if ex.Class == wellformed && rs.modeOK() && !rs.truncatedBody() {
			viol(ex.InputClass, "add-failed", want)
		}
		return
	}
	// successful unsharded add
	n := len(o.Calls)
	if n < 3 || o.Calls[0].name() != "Cluster.BlockAllocate" || o.Calls[n-1].name() != "Cluster.Pin" {
		viol(ex.InputClass, "wrong-calls", want)
		return
	}
	for _, c := range o.Calls[1 : n-1] {
		if c.name() != "IPFSConnector.BlockPut" {
			viol(ex.InputClass, "wrong-calls", want)
			return
		}
	}
	e := ex.PO.E
	e.skip["mode"] = true       // what an added DAG's pin mode is, is not the request's to say
	e.skip["pin-update"] = true // not meaningful for add
	if _, set := e.skip["shard-size"]; !set && e.ShardSize == 0 {
		e.skip["shard-size"] = true // default shard size when not carried
	}
	t1 := time.Now()
	t0 := t1.Add(-30 * time.Second)
	for _, i := range []int{0, n - 1} {
		p, ok := o.Calls[i].Arg.(api.Pin)
		if !ok {
			viol(ex.InputClass, "wrong-calls", want)
			return
		}
		for _, f := range cmpOpts(e, p.PinOptions, t0, t1) {
			viol("valid", "arg-mismatch:"+o.Calls[i].Method+"."+f, "add carries the request's pin options")
		}
	}
	// the pinned root is the last CID the response announced
	root := o.Calls[n-1].Arg.(api.Pin).Cid
	var last cid.Cid
	if ex.Stream {
		if len(o.docs) > 0 {
			var ao api.AddedOutput
			if json.Unmarshal(o.docs[len(o.docs)-1], &ao) == nil {
				last = ao.Cid
			}
		}
	} else if len(o.docs) == 1 {
		var aos []api.AddedOutput
		if json.Unmarshal(o.docs[0], &aos) == nil && len(aos) > 0 {
			last = aos[len(aos)-1].Cid
		}
	}
	if !last.Defined() || !last.Equals(root) {
		viol(ex.InputClass, "pinned-root-differs-from-announced", map[string]string{"pinned": root.String(), "announced": last.String()})
	}
}

func (rs reqSpec) truncatedBody() bool {
	return rs.Headers["X-C11-Body"] == "truncated" || rs.Headers["X-C11-Body"] == "empty"
}
