package c11

// Minimal direct reproductions of the confirmed findings (see FINDINGS.md).
// Not part of the verdict: run with C11_REPRO=1 to print them, e.g.
//   cd /verif/harness && C11_REPRO=1 go1.26 test -vet=off -run TestRepro -v ./c11

import (
	"context"
	"fmt"
	"os"
	"testing"

	"github.com/ipfs/ipfs-cluster/api"
)

func TestRepro(t *testing.T) {
	if os.Getenv("C11_REPRO") == "" {
		t.Skip("set C11_REPRO=1")
	}
	s := newServer(t, credCfgs[0])
	defer s.close()
	g := newGen()
	show := func(rs reqSpec) {
		o := s.do(rs)
		fmt.Printf("%s %s\n  -> status=%d json_docs=%d transport_error=%q\n  body=%q\n  rpc calls:", rs.Method, rs.Target, o.Status, o.NDocs, o.TransErr, o.Body)
		for _, c := range o.Calls {
			fmt.Printf(" %s(%+v)", c.name(), c.Arg)
		}
		fmt.Println()
	}
	h := map[string]string{}
	v0 := cidV0.String()
	show(reqSpec{Method: "POST", Target: "/pins/" + v0 + "?replication-min=abc", Headers: h})
	show(reqSpec{Method: "GET", Target: "/pins/" + v0 + "?shard-size=x", Headers: h})
	show(reqSpec{Method: "DELETE", Target: "/pins/ipfs/" + v0 + "/a?expire-at=tomorrow", Headers: h})
	show(reqSpec{Method: "POST", Target: "/pins/" + v0 + "?mode=direct", Headers: h})
	show(reqSpec{Method: "POST", Target: "/pins/ipfs/" + v0 + "?mode=direct", Headers: h})
	show(g.request("POST", "/add", "/add", []optVal{{"hash", "sha2-512", ""}}))
	c := newClient(t, s, "", "")
	ctx := context.Background()
	s.rec.reset("ok")
	c.PinPath(ctx, "/ipfs/"+v0+"/what?.txt", api.PinOptions{Name: "n", ReplicationFactorMin: 2, ReplicationFactorMax: 2})
	fmt.Printf("client.PinPath(/ipfs/%s/what?.txt, name=n, repl=2) arrived as: %+v\n", v0, s.rec.snapshot())
	s.rec.reset("ok")
	c.PinPath(ctx, "/ipfs/"+v0+"/a#b", api.PinOptions{Name: "n", ReplicationFactorMin: 2, ReplicationFactorMax: 2})
	fmt.Printf("client.PinPath(/ipfs/%s/a#b, name=n, repl=2) arrived as: %+v\n", v0, s.rec.snapshot())
	s.rec.reset("ok")
	c.StatusAll(ctx, api.TrackerStatusPinned|api.TrackerStatusPinError, false)
	fmt.Printf("client.StatusAll(pinned|pin_error) arrived as: %+v\n", s.rec.snapshot())
}
