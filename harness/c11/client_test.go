package c11

// Round trip through the bundled client library (api/rest/client) against the
// same real server: what the caller gave arrives at the recording service, what
// the recording service answered comes back, failures come back as *api.Error
// carrying the server's status code.

import (
	"context"
	"fmt"
	"os"
	"path/filepath"
	"reflect"
	"sort"
	"strings"
	"testing"
	"time"

	cid "github.com/ipfs/go-cid"
	files "github.com/ipfs/go-ipfs-files"
	gopath "github.com/ipfs/go-path"
	"github.com/ipfs/ipfs-cluster/api"
	"github.com/ipfs/ipfs-cluster/api/rest/client"
	peer "github.com/libp2p/go-libp2p-core/peer"
	ma "github.com/multiformats/go-multiaddr"
	multiaddr "github.com/multiformats/go-multiaddr"

	"verif/harness/lib/ev"
)

type cliCase struct {
	Label string // argument label (part of evidence signature and of detail)
	Key   string // argument class for violation keys ("" => "args")
	// run performs the call and returns (returned value, error)
	Run func(c client.Client) (interface{}, error)
	// Calls expected at the recording service (names) and argument check
	Calls    []string
	CheckArg func(calls []call) []string
	// Want is what the caller must get back when the scripted answer is "ok"
	Want interface{}
	// Raw is the equivalent raw request (used to learn the server's status
	// code for the same operation under a failing scripted answer)
	Raw reqSpec
	// LocalReject: the library itself refuses the argument (no request)
	Skip bool
}

func newClient(t testing.TB, s *server, user, pass string) client.Client {
	a, err := ma.NewMultiaddr("/ip4/127.0.0.1/tcp/" + s.addr[strings.LastIndex(s.addr, ":")+1:])
	if err != nil {
		t.Fatal(err)
	}
	c, err := client.NewDefaultClient(&client.Config{APIAddr: a, Username: user, Password: pass, LogLevel: "fatal"})
	if err != nil {
		t.Fatal(err)
	}
	return c
}

type optSet struct {
	Field string
	Label string
	Apply func(o *api.PinOptions)
	// Unspecified: the value has no defined transport (e.g. empty metadata key)
	Unspecified bool
}

func clientOptAlphabet() []optSet {
	tz := time.FixedZone("x", 2*3600)
	return []optSet{
		{"ReplicationFactorMin", "-1", func(o *api.PinOptions) { o.ReplicationFactorMin = -1 }, false},
		{"ReplicationFactorMin", "2", func(o *api.PinOptions) { o.ReplicationFactorMin = 2 }, false},
		{"ReplicationFactorMax", "-1", func(o *api.PinOptions) { o.ReplicationFactorMax = -1 }, false},
		{"ReplicationFactorMax", "3", func(o *api.PinOptions) { o.ReplicationFactorMax = 3 }, false},
		{"Name", "plain", func(o *api.PinOptions) { o.Name = "my pin" }, false},
		{"Name", "special-chars", func(o *api.PinOptions) { o.Name = "a b&c=d/é?#%41+" }, false},
		{"Mode", "direct", func(o *api.PinOptions) { o.Mode = api.PinModeDirect }, false},
		{"ShardSize", "1024", func(o *api.PinOptions) { o.ShardSize = 1024 }, false},
		{"UserAllocations", "one", func(o *api.PinOptions) { o.UserAllocations = []peer.ID{peerA} }, false},
		{"UserAllocations", "two", func(o *api.PinOptions) { o.UserAllocations = []peer.ID{peerC, peerA} }, false},
		{"ExpireAt", "utc-seconds", func(o *api.PinOptions) { o.ExpireAt = tFixed }, false},
		{"ExpireAt", "nanos-tz", func(o *api.PinOptions) { o.ExpireAt = time.Date(2032, 5, 6, 7, 8, 9, 123456789, tz) }, false},
		{"Metadata", "plain", func(o *api.PinOptions) { o.Metadata = map[string]string{"k": "v", "k2": "v2"} }, false},
		{"Metadata", "special-chars", func(o *api.PinOptions) { o.Metadata = map[string]string{"k 2&": "v=2?#%41+"} }, false},
		{"Metadata", "empty-key", func(o *api.PinOptions) { o.Metadata = map[string]string{"": "x", "k": "v"} }, true},
		{"PinUpdate", "cid", func(o *api.PinOptions) { o.PinUpdate = cidUpd }, false},
		{"Origins", "one", func(o *api.PinOptions) { o.Origins = []multiaddr.Multiaddr{mustMaddr(origin1)} }, false},
		{"Origins", "two", func(o *api.PinOptions) { o.Origins = []multiaddr.Multiaddr{mustMaddr(origin2), mustMaddr(origin1)} }, false},
	}
}

// optsEqual compares what arrived with what was given.
func optsDiff(given, got api.PinOptions) []string {
	e := expOpts{Name: given.Name, Mode: given.Mode, RMin: given.ReplicationFactorMin, RMax: given.ReplicationFactorMax,
		ShardSize: given.ShardSize, UserAllocs: given.UserAllocations, ExpireAt: given.ExpireAt, Meta: map[string]string{},
		PinUpdate: given.PinUpdate, skip: map[string]bool{}}
	for k, v := range given.Metadata {
		if k != "" { // no defined transport for an empty key
			e.Meta[k] = v
		}
	}
	for _, o := range given.Origins {
		e.Origins = append(e.Origins, o.String())
	}
	if got.Metadata != nil {
		g := map[string]string{}
		for k, v := range got.Metadata {
			g[k] = v
		}
		got.Metadata = g
	}
	return cmpOpts(e, got, time.Time{}, time.Time{})
}

func optCombos(thorough bool) (combos [][]optSet) {
	al := clientOptAlphabet()
	combos = append(combos, nil)
	for i := range al {
		combos = append(combos, []optSet{al[i]})
	}
	for i := range al {
		for j := i + 1; j < len(al); j++ {
			if al[i].Field != al[j].Field {
				combos = append(combos, []optSet{al[i], al[j]})
			}
		}
	}
	if thorough {
		for i := range al {
			for j := i + 1; j < len(al); j++ {
				for k := j + 1; k < len(al); k++ {
					if al[i].Field != al[j].Field && al[j].Field != al[k].Field && al[i].Field != al[k].Field {
						combos = append(combos, []optSet{al[i], al[j], al[k]})
					}
				}
			}
		}
	}
	return
}

func comboLabel(c []optSet) string {
	if len(c) == 0 {
		return "default-options"
	}
	var l []string
	for _, o := range c {
		l = append(l, o.Field+"="+o.Label)
	}
	return strings.Join(l, "&")
}

func gpiFromLocal() api.GlobalPinInfo {
	p := ansPinInfo()
	return api.GlobalPinInfo{Cid: p.Cid, Name: p.Name, PeerMap: map[string]*api.PinInfoShort{peer.Encode(p.Peer): &p.PinInfoShort}}
}

func clientPaths() []struct{ In, Label, Key string } {
	v0 := cidV0.String()
	return []struct{ In, Label, Key string }{
		{"/ipfs/" + v0, "/ipfs/cid", ""},
		{"/ipfs/" + v0 + "/a/b", "/ipfs/cid/a/b", ""},
		{v0 + "/a", "bare cid/a", ""},
		{"/ipns/example.com", "/ipns/domain", ""},
		{"/ipld/" + cidV1.String() + "/x", "/ipld/cidv1/x", ""},
		{"/ipfs/" + v0 + "/a b/c", "segment with space", "path-segment:space"},
		{"/ipfs/" + v0 + "/q?x", "segment with ?", "path-segment:question-mark"},
		{"/ipfs/" + v0 + "/h#x", "segment with #", "path-segment:hash-sign"},
		{"/ipfs/" + v0 + "/p%41", "segment with %41", "path-segment:percent"},
	}
}

// buildClientCases returns, per client method name, its cases.
func buildClientCases(t *testing.T, tmp string) map[string][]cliCase {
	ctx := context.Background()
	cases := map[string][]cliCase{}
	raw := func(m, target string) reqSpec {
		return reqSpec{Method: m, Target: target, Headers: map[string]string{}}
	}
	noarg := func(name, svc string, want interface{}, m, target string, run func(c client.Client) (interface{}, error)) {
		cases[name] = []cliCase{{Label: "-", Run: run, Calls: []string{svc}, Want: want, Raw: raw(m, target),
			CheckArg: func(cs []call) []string {
				if _, ok := cs[0].Arg.(struct{}); !ok {
					return []string{"arg"}
				}
				return nil
			}}}
	}
	id := ansID()
	idb := ansID()
	idb.ID, idb.Peername = peerB, "scripted-peer-b"
	noarg("ID", "Cluster.ID", &id, "GET", "/id", func(c client.Client) (interface{}, error) { return c.ID(ctx) })
	noarg("Peers", "Cluster.Peers", []*api.ID{&id, &idb}, "GET", "/peers", func(c client.Client) (interface{}, error) { return c.Peers(ctx) })
	noarg("Version", "Cluster.Version", &api.Version{Version: "0.0.scripted"}, "GET", "/version", func(c client.Client) (interface{}, error) { return c.Version(ctx) })
	noarg("Alerts", "Cluster.Alerts", ansAlerts(), "GET", "/health/alerts", func(c client.Client) (interface{}, error) { return c.Alerts(ctx) })
	gr := ansGraph()
	noarg("GetConnectGraph", "Cluster.ConnectGraph", &gr, "GET", "/health/graph", func(c client.Client) (interface{}, error) { return c.GetConnectGraph(ctx) })
	noarg("MetricNames", "PeerMonitor.MetricNames", []string{"ping", "freespace"}, "GET", "/monitor/metrics", func(c client.Client) (interface{}, error) { return c.MetricNames(ctx) })

	pidArg := func(p peer.ID) func([]call) []string {
		return func(cs []call) []string {
			if g, ok := cs[0].Arg.(peer.ID); !ok || g != p {
				return []string{"peer"}
			}
			return nil
		}
	}
	cidArg := func(c cid.Cid) func([]call) []string {
		return func(cs []call) []string {
			if g, ok := cs[0].Arg.(cid.Cid); !ok || !g.Equals(c) {
				return []string{"Cid"}
			}
			return nil
		}
	}
	for _, p := range []peer.ID{peerA, peerC} {
		p := p
		cases["PeerAdd"] = append(cases["PeerAdd"], cliCase{Label: "peer=" + peer.Encode(p)[:6], Calls: []string{"Cluster.PeerAdd"}, CheckArg: pidArg(p), Want: &id,
			Raw: reqSpec{Method: "POST", Target: "/peers", Headers: map[string]string{}, Body: `{"peer_id":"` + peer.Encode(p) + `"}`},
			Run: func(c client.Client) (interface{}, error) { return c.PeerAdd(ctx, p) }})
		cases["PeerRm"] = append(cases["PeerRm"], cliCase{Label: "peer=" + peer.Encode(p)[:6], Calls: []string{"Cluster.PeerRemove"}, CheckArg: pidArg(p), Want: nil,
			Raw: raw("DELETE", "/peers/"+peer.Encode(p)),
			Run: func(c client.Client) (interface{}, error) { return nil, c.PeerRm(ctx, p) }})
	}
	pin := ansPin()
	gpi := ansGPI()
	lgpi := gpiFromLocal()
	for _, ci := range []cid.Cid{cidV0, cidV1} {
		ci := ci
		lab := "cid=v" + fmt.Sprint(ci.Version())
		cases["Unpin"] = append(cases["Unpin"], cliCase{Label: lab, Calls: []string{"Cluster.Unpin"}, Want: &pin, Raw: raw("DELETE", "/pins/"+ci.String()),
			CheckArg: func(cs []call) []string {
				if p, ok := cs[0].Arg.(api.Pin); !ok || !p.Cid.Equals(ci) {
					return []string{"Cid"}
				}
				return nil
			},
			Run: func(c client.Client) (interface{}, error) { return c.Unpin(ctx, ci) }})
		cases["Allocation"] = append(cases["Allocation"], cliCase{Label: lab, Calls: []string{"Cluster.PinGet"}, Want: &pin, CheckArg: cidArg(ci), Raw: raw("GET", "/allocations/"+ci.String()),
			Run: func(c client.Client) (interface{}, error) { return c.Allocation(ctx, ci) }})
		for _, local := range []bool{false, true} {
			local := local
			sfx, want := "", &gpi
			if local {
				sfx, want = "Local", &lgpi
			}
			ll := fmt.Sprintf("%s local=%t", lab, local)
			cases["Status"] = append(cases["Status"], cliCase{Label: ll, Calls: []string{"Cluster.Status" + sfx}, Want: want, CheckArg: cidArg(ci),
				Raw: raw("GET", fmt.Sprintf("/pins/%s?local=%t", ci, local)),
				Run: func(c client.Client) (interface{}, error) { return c.Status(ctx, ci, local) }})
			cases["Recover"] = append(cases["Recover"], cliCase{Label: ll, Calls: []string{"Cluster.Recover" + sfx}, Want: want, CheckArg: cidArg(ci),
				Raw: raw("POST", fmt.Sprintf("/pins/%s/recover?local=%t", ci, local)),
				Run: func(c client.Client) (interface{}, error) { return c.Recover(ctx, ci, local) }})
		}
		for _, combo := range optCombos(ev.Thorough()) {
			var opts api.PinOptions
			for _, o := range combo {
				o.Apply(&opts)
			}
			given := opts
			cases["Pin"] = append(cases["Pin"], cliCase{Label: lab + " " + comboLabel(combo), Calls: []string{"Cluster.Pin"}, Want: &pin, Raw: raw("POST", "/pins/"+ci.String()),
				CheckArg: func(cs []call) []string {
					p, ok := cs[0].Arg.(api.Pin)
					if !ok {
						return []string{"arg-type"}
					}
					var d []string
					if !p.Cid.Equals(ci) {
						d = append(d, "Cid")
					}
					return append(d, optsDiff(given, p.PinOptions)...)
				},
				Run: func(c client.Client) (interface{}, error) { return c.Pin(ctx, ci, given) }})
		}
	}
	for _, local := range []bool{false, true} {
		local := local
		sfx := ""
		wantAll, wantGC := []*api.GlobalPinInfo{&gpi}, ansGlobalRepoGC()
		if local {
			sfx = "Local"
			wantAll = []*api.GlobalPinInfo{&lgpi}
			l := ansRepoGC()
			wantGC = api.GlobalRepoGC{PeerMap: map[string]*api.RepoGC{peer.Encode(l.Peer): &l}}
		}
		ll := fmt.Sprintf("local=%t", local)
		noA := func(cs []call) []string {
			if _, ok := cs[0].Arg.(struct{}); !ok {
				return []string{"arg"}
			}
			return nil
		}
		cases["RecoverAll"] = append(cases["RecoverAll"], cliCase{Label: ll, Calls: []string{"Cluster.RecoverAll" + sfx}, Want: wantAll, CheckArg: noA,
			Raw: raw("POST", fmt.Sprintf("/pins/recover?local=%t", local)),
			Run: func(c client.Client) (interface{}, error) { return c.RecoverAll(ctx, local) }})
		gc := wantGC
		cases["RepoGC"] = append(cases["RepoGC"], cliCase{Label: ll, Calls: []string{"Cluster.RepoGC" + sfx}, Want: &gc, CheckArg: noA,
			Raw: raw("POST", fmt.Sprintf("/ipfs/gc?local=%t", local)),
			Run: func(c client.Client) (interface{}, error) { return c.RepoGC(ctx, local) }})
		for _, f := range []struct {
			st  api.TrackerStatus
			lab string
			key string
		}{{api.TrackerStatusUndefined, "all", ""}, {api.TrackerStatusPinned, "pinned", ""}, {api.TrackerStatusPinned | api.TrackerStatusRemote, "pinned|remote", ""},
			{api.TrackerStatusError, "error(composite)", ""}, {api.TrackerStatusQueued | api.TrackerStatusRemote, "queued(composite)|remote", ""},
			// some but not all members of a named composite (error = cluster_error|pin_error|unpin_error, queued = pin_queued|unpin_queued)
			{api.TrackerStatusPinned | api.TrackerStatusPinError, "pinned|pin_error", "filter:part-of-composite"},
			{api.TrackerStatusPinQueued, "pin_queued", ""},
			{api.TrackerStatusPinQueued | api.TrackerStatusPinning, "pin_queued|pinning", "filter:part-of-composite"}} {
			f := f
			cases["StatusAll"] = append(cases["StatusAll"], cliCase{Label: ll + " filter=" + f.lab, Key: f.key, Calls: []string{"Cluster.StatusAll" + sfx}, Want: wantAll,
				Raw: raw("GET", fmt.Sprintf("/pins?local=%t", local)),
				CheckArg: func(cs []call) []string {
					if g, ok := cs[0].Arg.(api.TrackerStatus); !ok || g != f.st {
						return []string{"filter"}
					}
					return nil
				},
				Run: func(c client.Client) (interface{}, error) { return c.StatusAll(ctx, f.st, local) }})
		}
	}
	for _, f := range []struct {
		t   api.PinType
		lab string
	}{{api.DataType, "pin"}, {api.MetaType, "meta-pin"}, {api.ClusterDAGType, "clusterdag-pin"}, {api.ShardType, "shard-pin"}, {api.AllType, "all"},
		{api.DataType | api.MetaType, "pin|meta-pin"}, {api.DataType | api.ShardType | api.ClusterDAGType, "pin|shard-pin|clusterdag-pin"}} {
		f := f
		var want []*api.Pin
		for _, p := range ansPins() {
			if p.Type&f.t != 0 {
				want = append(want, p)
			}
		}
		cases["Allocations"] = append(cases["Allocations"], cliCase{Label: "filter=" + f.lab, Calls: []string{"Cluster.Pins"}, Want: want, Raw: raw("GET", "/allocations"),
			Run: func(c client.Client) (interface{}, error) { return c.Allocations(ctx, f.t) }})
	}
	for _, n := range []string{"ping", "freespace", "x.y-z_1"} {
		n := n
		cases["Metrics"] = append(cases["Metrics"], cliCase{Label: "name=" + n, Calls: []string{"PeerMonitor.LatestMetrics"}, Want: ansMetrics(n), Raw: raw("GET", "/monitor/metrics/"+n),
			CheckArg: func(cs []call) []string {
				if g, ok := cs[0].Arg.(string); !ok || g != n {
					return []string{"name"}
				}
				return nil
			},
			Run: func(c client.Client) (interface{}, error) { return c.Metrics(ctx, n) }})
	}
	// paths
	pathCombos := optCombos(false)
	for _, p := range clientPaths() {
		p := p
		pp, err := gopath.ParsePath(p.In)
		if err != nil {
			t.Fatalf("fixture path %q does not parse: %v", p.In, err)
		}
		checkPath := func(cs []call) []string {
			g, ok := cs[0].Arg.(api.PinPath)
			if !ok {
				return []string{"arg-type"}
			}
			if g.Path != pp.String() {
				return []string{"Path"}
			}
			return nil
		}
		cases["UnpinPath"] = append(cases["UnpinPath"], cliCase{Label: "path=" + p.Label, Key: p.Key, Calls: []string{"Cluster.UnpinPath"}, Want: &pin, CheckArg: checkPath,
			Raw: raw("DELETE", "/pins/ipfs/"+cidV0.String()),
			Run: func(c client.Client) (interface{}, error) { return c.UnpinPath(ctx, p.In) }})
		combos := pathCombos
		if p.Key != "" {
			combos = pathCombos[:6]
		}
		for _, combo := range combos {
			var opts api.PinOptions
			for _, o := range combo {
				o.Apply(&opts)
			}
			given := opts
			cases["PinPath"] = append(cases["PinPath"], cliCase{Label: "path=" + p.Label + " " + comboLabel(combo), Key: p.Key, Calls: []string{"Cluster.PinPath"}, Want: &pin,
				Raw: raw("POST", "/pins/ipfs/"+cidV0.String()),
				CheckArg: func(cs []call) []string {
					if d := checkPath(cs); d != nil {
						return d // a wrong path: option differences are a consequence
					}
					return optsDiff(given, cs[0].Arg.(api.PinPath).PinOptions)
				},
				Run: func(c client.Client) (interface{}, error) { return c.PinPath(ctx, p.In, given) }})
		}
	}

	// Add / AddMultiFile
	fpath := filepath.Join(tmp, "hello.txt")
	if err := os.WriteFile(fpath, []byte(strings.Repeat("hello from the client ", 200)), 0o644); err != nil {
		t.Fatal(err)
	}
	dpath := filepath.Join(tmp, "d")
	os.MkdirAll(filepath.Join(dpath, "sub"), 0o755)
	os.WriteFile(filepath.Join(dpath, "a.txt"), []byte("aaa"), 0o644)
	os.WriteFile(filepath.Join(dpath, "sub", "b.txt"), []byte(strings.Repeat("b", 5000)), 0o644)
	type addVar struct {
		lab   string
		paths []string
		set   func(p *api.AddParams)
	}
	addVars := []addVar{
		{"defaults", []string{fpath}, func(p *api.AddParams) {}},
		{"name+replication", []string{fpath}, func(p *api.AddParams) { p.Name = "n m&o"; p.ReplicationFactorMin = 1; p.ReplicationFactorMax = 2 }},
		{"everywhere", []string{fpath}, func(p *api.AddParams) { p.ReplicationFactorMin = -1; p.ReplicationFactorMax = -1 }},
		{"metadata+expire+user-allocations", []string{fpath}, func(p *api.AddParams) {
			p.Metadata = map[string]string{"k": "v"}
			p.ExpireAt = tFixed
			p.UserAllocations = []peer.ID{peerA, peerC}
		}},
		{"origins", []string{fpath}, func(p *api.AddParams) { p.Origins = []multiaddr.Multiaddr{mustMaddr(origin1)} }},
		{"trickle+chunker", []string{fpath}, func(p *api.AddParams) { p.Layout = "trickle"; p.Chunker = "size-1024" }},
		{"cidv1+rawleaves", []string{fpath}, func(p *api.AddParams) { p.CidVersion = 1; p.RawLeaves = true }},
		{"cidv1+sha2-512", []string{fpath}, func(p *api.AddParams) { p.CidVersion = 1; p.RawLeaves = true; p.HashFun = "sha2-512" }},
		{"local", []string{fpath}, func(p *api.AddParams) { p.Local = true }},
		{"wrap", []string{fpath}, func(p *api.AddParams) { p.Wrap = true }},
		{"directory-recursive", []string{dpath}, func(p *api.AddParams) { p.Recursive = true }},
		{"two-paths-wrapped", []string{fpath, dpath}, func(p *api.AddParams) { p.Recursive = true; p.Wrap = true }},
		{"progress", []string{fpath}, func(p *api.AddParams) { p.Progress = true }},
	}
	checkAddCalls := func(given api.PinOptions) func([]call) []string {
		return func(cs []call) []string {
			n := len(cs)
			if n < 3 || cs[0].name() != "Cluster.BlockAllocate" || cs[n-1].name() != "Cluster.Pin" {
				return []string{"call-sequence"}
			}
			var d []string
			for _, i := range []int{0, n - 1} {
				p := cs[i].Arg.(api.Pin)
				g := given
				g.Mode = p.Mode           // pin mode of an added DAG is the server's business
				g.PinUpdate = p.PinUpdate // not transported for add
				for _, f := range optsDiff(g, p.PinOptions) {
					d = append(d, cs[i].Method+"."+f)
				}
			}
			return d
		}
	}
	drain := func(run func(out chan *api.AddedOutput) error) (interface{}, error) {
		out := make(chan *api.AddedOutput, 1)
		var got []*api.AddedOutput
		done := make(chan struct{})
		go func() {
			for o := range out {
				got = append(got, o)
			}
			close(done)
		}()
		err := run(out)
		<-done
		return got, err
	}
	for _, v := range addVars {
		v := v
		mk := func() *api.AddParams { p := api.DefaultAddParams(); v.set(p); return p }
		given := mk().PinOptions
		cases["Add"] = append(cases["Add"], cliCase{Label: v.lab, Calls: nil, CheckArg: checkAddCalls(given), Want: "add-outputs",
			Raw: reqSpec{Method: "POST", Target: "/add", Headers: map[string]string{}},
			Run: func(c client.Client) (interface{}, error) {
				return drain(func(out chan *api.AddedOutput) error { return c.Add(ctx, v.paths, mk(), out) })
			}})
		cases["AddMultiFile"] = append(cases["AddMultiFile"], cliCase{Label: v.lab, Calls: nil, CheckArg: checkAddCalls(given), Want: "add-outputs",
			Raw: reqSpec{Method: "POST", Target: "/add", Headers: map[string]string{}},
			Run: func(c client.Client) (interface{}, error) {
				return drain(func(out chan *api.AddedOutput) error {
					p := mk()
					var entries []files.DirEntry
					for _, pth := range v.paths {
						st, err := os.Lstat(pth)
						if err != nil {
							return err
						}
						n, err := files.NewSerialFile(pth, p.Hidden, st)
						if err != nil {
							return err
						}
						entries = append(entries, files.FileEntry(filepath.Base(pth), n))
					}
					mfr := files.NewMultiFileReader(files.NewSliceDirectory(entries), true)
					return c.AddMultiFile(ctx, mfr, p, out)
				})
			}})
	}
	return cases
}

func TestClientLibrary(t *testing.T) {
	s := newServer(t, credCfgs[0])
	defer s.close()
	sAuth := newServer(t, credCfgs[2])
	defer sAuth.close()
	routes, err := walkRoutes(s.router)
	if err != nil {
		t.Fatal(err)
	}
	g := newGen()
	cases := buildClientCases(t, t.TempDir())

	// every method of the Client interface must have a driver
	it := reflect.TypeOf((*client.Client)(nil)).Elem()
	notCalls := map[string]string{"IPFS": "returns a go-ipfs-api shell for the proxy endpoint; performs no REST call"}
	var methods []string
	for i := 0; i < it.NumMethod(); i++ {
		n := it.Method(i).Name
		methods = append(methods, n)
		if _, ok := cases[n]; !ok {
			if _, skip := notCalls[n]; skip {
				continue
			}
			R.NotExhaustive("client method " + n + " has no driver in the harness")
		}
	}
	sort.Strings(methods)
	sec := R.Sec("client library round trip")
	sec.Bounds["client_methods"] = methods
	sec.Bounds["methods_not_driven"] = notCalls
	sec.Bounds["pin_option_settings"] = len(clientOptAlphabet())
	sec.Bounds["pin_option_combinations"] = len(optCombos(ev.Thorough()))
	sec.Bounds["answer_modes"] = []string{"ok", "err", "notfound"}

	cOK := newClient(t, s, "", "")
	cAuthOK := newClient(t, sAuth, "bob", "builder")
	cAuthBad := newClient(t, sAuth, "bob", "wrong")
	cAuthNone := newClient(t, sAuth, "", "")

	for _, m := range methods {
		for ci, cc := range cases[m] {
			keyArgs := cc.Key
			if keyArgs == "" {
				keyArgs = "args"
			}
			report := func(srv *server, mode, symptom string, expected, got interface{}, err error, calls []call) {
				es := ""
				if err != nil {
					es = fmt.Sprintf("%T: %v", err, err)
				}
				violate("C11|client."+m+"|"+keyArgs+"|"+symptom, map[string]interface{}{
					"section": sec.Name, "method": m, "arguments": cc.Label, "rpc_answer_mode": mode, "credentials_config": srv.cfg.Name,
					"expected": expected, "returned": got, "error": es, "rpc_calls": calls})
			}
			// ---- scripted success ----
			for _, v := range []struct {
				srv *server
				cl  client.Client
			}{{s, cOK}, {sAuth, cAuthOK}} {
				if v.srv == sAuth && ci > 3 {
					break // with valid credentials: a few cases per method suffice
				}
				v.srv.rec.reset("ok")
				got, err := v.cl.(client.Client), error(nil)
				var ret interface{}
				func() {
					defer func() {
						if p := recover(); p != nil {
							err = fmt.Errorf("client panicked: %v", p)
							report(v.srv, "ok", "client-panic", nil, nil, err, nil)
						}
					}()
					ret, err = cc.Run(got)
				}()
				calls := v.srv.rec.snapshot()
				var seq []string
				for _, c := range calls {
					seq = append(seq, c.name())
				}
				R.Eval(sec, strings.Join([]string{"client", v.srv.cfg.Name, m, cc.Label, "ok", fmt.Sprint(err == nil)}, "|"), true)
				if err != nil {
					report(v.srv, "ok", "error-on-success", cc.Want, ret, err, calls)
					continue
				}
				if cc.Calls != nil && strings.Join(seq, ",") != strings.Join(cc.Calls, ",") {
					report(v.srv, "ok", "wrong-calls", cc.Calls, ret, err, calls)
					continue
				}
				if cc.CheckArg != nil && len(calls) > 0 {
					for _, f := range cc.CheckArg(calls) {
						report(v.srv, "ok", "arg-mismatch:"+f, "the argument given", ret, err, calls)
					}
				}
				if cc.Want == "add-outputs" {
					outs, _ := ret.([]*api.AddedOutput)
					if len(calls) > 0 && calls[len(calls)-1].name() == "Cluster.Pin" {
						root := calls[len(calls)-1].Arg.(api.Pin).Cid
						if len(outs) == 0 || !outs[len(outs)-1].Cid.Equals(root) {
							report(v.srv, "ok", "return-mismatch", "last AddedOutput is the pinned root "+root.String(), ret, err, calls)
						}
					}
				} else if cc.Want != nil && ev.JSON(ret) != ev.JSON(cc.Want) {
					report(v.srv, "ok", "return-mismatch", cc.Want, ret, err, calls)
				}
			}
			if ci > 3 && (m == "Pin" || m == "PinPath") {
				continue // failure modes: a few argument cases per method
			}
			// ---- scripted failure: *api.Error with the server's code ----
			for _, mode := range []string{"err", "notfound"} {
				rawReq := cc.Raw
				if m == "Add" || m == "AddMultiFile" {
					rawReq = g.request("POST", "/add", "/add", nil)
				}
				rawReq.Mode = mode
				ro := s.do(rawReq)
				s.rec.reset(mode)
				ret, err := cc.Run(cOK)
				calls := s.rec.snapshot()
				R.Eval(sec, strings.Join([]string{"client", "none", m, cc.Label, mode, fmt.Sprint(err == nil)}, "|"), true)
				if ro.Status < 400 {
					// streaming add reports failures in a trailer after a 200
					if err == nil {
						report(s, mode, "rpc-failure-not-reported", "an error", ret, err, calls)
					}
					continue
				}
				ae, ok := err.(*api.Error)
				switch {
				case err == nil:
					report(s, mode, "rpc-failure-not-reported", fmt.Sprintf("*api.Error code %d", ro.Status), ret, err, calls)
				case !ok:
					report(s, mode, "error-not-api.Error", fmt.Sprintf("*api.Error code %d", ro.Status), ret, err, calls)
				case ae.Code != ro.Status:
					report(s, mode, "error-code-mismatch", fmt.Sprintf("*api.Error code %d", ro.Status), ret, err, calls)
				}
			}
			// ---- missing / wrong credentials: 401 as *api.Error, nothing performed ----
			if ci > 1 {
				continue
			}
			for _, v := range []struct {
				kind string
				cl   client.Client
			}{{"wrong-password", cAuthBad}, {"no-credentials", cAuthNone}} {
				sAuth.rec.reset("ok")
				ret, err := cc.Run(v.cl)
				calls := sAuth.rec.snapshot()
				R.Eval(sec, strings.Join([]string{"client", "two", m, cc.Label, v.kind, fmt.Sprint(err == nil)}, "|"), true)
				ae, ok := err.(*api.Error)
				if len(calls) != 0 {
					report(sAuth, v.kind, "op-performed-without-credentials", "no RPC call", ret, err, calls)
				}
				if !ok || ae.Code != 401 {
					report(sAuth, v.kind, "error-code-mismatch", "*api.Error code 401", ret, err, calls)
				}
			}
		}
	}
	_ = routes
}
