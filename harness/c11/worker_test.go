package c11

// Reporting sink + subprocess worker.
//
// POST /add spawns a goroutine that keeps writing to the ResponseWriter; when
// the handler goroutine panics (see FINDINGS.md, finding C) that goroutine can
// dereference a torn-down connection and kill the whole process, which no
// recover() in the harness can stop. The option enumeration of POST /add
// therefore runs in a child process (this same test binary, C11_CHILD=1): the
// child hosts its own real server, applies the same oracle and streams its
// reports to the parent, which replays them into the evidence. A dead child is
// itself a violation (the REST API took the process down) and the batch
// continues in a fresh child.

import (
	"bufio"
	"bytes"
	"encoding/json"
	"fmt"
	"os"
	"os/exec"
	"regexp"
	"strings"
	"sync"
	"testing"
)

type sink interface {
	Eval(sec, sig string, nontrivial bool, outcome string)
	Violation(key string, detail interface{})
	Sample(tag string, x interface{})
	NotExhaustive(why string)
	Broken(msg string)
}

// out is where evaluate() reports. Parent: straight into R.
var out sink = direct{}

type direct struct{}

func (direct) Eval(sec, sig string, nontrivial bool, outcome string) {
	s := R.Sec(sec)
	R.Eval(s, sig, nontrivial)
	R.Outcome(s, outcome)
}
func (direct) Violation(key string, detail interface{}) { violate(key, detail) }
func (direct) Sample(tag string, x interface{})         { R.SampleTagged(tag, 1, x) }
func (direct) NotExhaustive(why string)                 { R.NotExhaustive(why) }
func (direct) Broken(msg string)                        { R.Broken("%s", msg) }

// ---- wire format -----------------------------------------------------------

type wireEvent struct {
	Type       string          `json:"type"` // eval | viol | sample | cap | broken | done
	I          int             `json:"i,omitempty"`
	Sec        string          `json:"sec,omitempty"`
	Sig        string          `json:"sig,omitempty"`
	Nontrivial bool            `json:"nontrivial,omitempty"`
	Outcome    string          `json:"outcome,omitempty"`
	Key        string          `json:"key,omitempty"`
	Detail     json.RawMessage `json:"detail,omitempty"`
	Msg        string          `json:"msg,omitempty"`
}

type piped struct {
	mu sync.Mutex
	w  *bufio.Writer
}

func (p *piped) emit(e wireEvent) {
	p.mu.Lock()
	b, _ := json.Marshal(e)
	p.w.Write(b)
	p.w.WriteByte('\n')
	p.w.Flush()
	p.mu.Unlock()
}
func raw(x interface{}) json.RawMessage { b, _ := json.Marshal(x); return b }
func (p *piped) Eval(sec, sig string, nontrivial bool, outcome string) {
	p.emit(wireEvent{Type: "eval", Sec: sec, Sig: sig, Nontrivial: nontrivial, Outcome: outcome})
}
func (p *piped) Violation(key string, detail interface{}) {
	p.emit(wireEvent{Type: "viol", Key: key, Detail: raw(detail)})
}
func (p *piped) Sample(tag string, x interface{}) {
	p.emit(wireEvent{Type: "sample", Key: tag, Detail: raw(x)})
}
func (p *piped) NotExhaustive(why string) { p.emit(wireEvent{Type: "cap", Msg: why}) }
func (p *piped) Broken(msg string)        { p.emit(wireEvent{Type: "broken", Msg: msg}) }

type workItem struct {
	Req  reqSpec  `json:"req"`
	Meta caseMeta `json:"meta"`
}

// ---- child -----------------------------------------------------------------

// childMain runs in the subprocess: evaluate every item of the spec file on a
// private server (credentials config "none").
func childMain() int {
	b, err := os.ReadFile(os.Getenv("C11_CHILD_SPEC"))
	if err != nil {
		fmt.Fprintln(os.Stderr, "child: cannot read spec:", err)
		return 3
	}
	var items []workItem
	if err := json.Unmarshal(b, &items); err != nil {
		fmt.Fprintln(os.Stderr, "child: bad spec:", err)
		return 3
	}
	p := &piped{w: bufio.NewWriter(os.Stdout)}
	out = p
	t := &childT{}
	s := newServer(t, credCfgs[0])
	routes, err := walkRoutes(s.router)
	if err != nil {
		fmt.Fprintln(os.Stderr, "child: cannot walk router:", err)
		return 3
	}
	for i, it := range items {
		evaluate(s, routes, it.Req, it.Meta)
		p.emit(wireEvent{Type: "done", I: i})
	}
	s.close()
	return 0
}

// childT is the minimal testing.TB the server constructor needs in the child.
type childT struct{ testing.TB }

func (*childT) Fatal(a ...interface{}) {
	fmt.Fprintln(os.Stderr, append([]interface{}{"child: fatal:"}, a...)...)
	os.Exit(3)
}
func (*childT) Fatalf(f string, a ...interface{}) {
	fmt.Fprintf(os.Stderr, "child: fatal: "+f+"\n", a...)
	os.Exit(3)
}

// ---- parent ----------------------------------------------------------------

var repoFrame = regexp.MustCompile(`(?m)^github\.com/ipfs/ipfs-cluster/([^\s(]+)`)

// crashSignature extracts a stable signature of a process-killing panic: the
// first frame of the code under test below the "panic:" line.
func crashSignature(stderr string) string {
	i := strings.LastIndex(stderr, "\npanic: ")
	if i < 0 {
		i = strings.LastIndex(stderr, "fatal error: ")
	}
	if i < 0 {
		return "no-panic-trace"
	}
	m := repoFrame.FindStringSubmatch(stderr[i:])
	if m == nil {
		return "panic-outside-repo-frames"
	}
	f := m[1]
	f = strings.TrimSuffix(f, "...")
	// drop closure suffixes (.func1) so that the signature names the function
	f = regexp.MustCompile(`\.func\d+(\.\d+)*$`).ReplaceAllString(f, "")
	return f
}

// runInChild evaluates items in child processes and replays their reports.
func runInChild(t *testing.T, items []workItem) {
	if len(items) == 0 {
		return
	}
	dir := os.Getenv("VERIF_SCRATCH")
	if dir == "" {
		dir = t.TempDir()
	}
	next, stuck := 0, 0
	for next < len(items) {
		spec, err := os.CreateTemp(dir, "c11-child-*.json")
		if err != nil {
			t.Fatal(err)
		}
		json.NewEncoder(spec).Encode(items[next:])
		spec.Close()
		cmd := exec.Command(os.Args[0], "-test.run", "^$", "-test.timeout=0")
		cmd.Env = append(os.Environ(), "C11_CHILD=1", "C11_CHILD_SPEC="+spec.Name())
		var stderr bytes.Buffer
		cmd.Stderr = &stderr
		stdout, err := cmd.StdoutPipe()
		if err != nil {
			t.Fatal(err)
		}
		if err := cmd.Start(); err != nil {
			t.Fatal(err)
		}
		sc := bufio.NewScanner(stdout)
		sc.Buffer(make([]byte, 1<<20), 64<<20)
		var pending []wireEvent
		base := next
		for sc.Scan() {
			var e wireEvent
			if json.Unmarshal(sc.Bytes(), &e) != nil {
				continue
			}
			if e.Type != "done" {
				pending = append(pending, e)
				continue
			}
			for _, pe := range pending { // commit the finished item
				switch pe.Type {
				case "eval":
					direct{}.Eval(pe.Sec, pe.Sig, pe.Nontrivial, pe.Outcome)
				case "viol":
					var d interface{}
					json.Unmarshal(pe.Detail, &d)
					violate(pe.Key, d)
				case "sample":
					var d interface{}
					json.Unmarshal(pe.Detail, &d)
					R.SampleTagged(pe.Key, 1, d)
				case "cap":
					R.NotExhaustive(pe.Msg)
				case "broken":
					R.Broken("%s", pe.Msg)
				}
			}
			pending = nil
			next = base + e.I + 1
			stuck = 0
		}
		werr := cmd.Wait()
		os.Remove(spec.Name())
		if next >= len(items) {
			break
		}
		// the child died before finishing
		se := stderr.String()
		if werr == nil || strings.Contains(se, "child: ") && !strings.Contains(se, "panic: ") {
			R.Broken("add worker stopped early without a panic (%v): %s", werr, tail(se, 600))
			return
		}
		var recent []reqSpec
		for i := next - 3; i <= next && i < len(items); i++ {
			if i >= 0 {
				r := items[i].Req
				r.Body = "(omitted)"
				recent = append(recent, r)
			}
		}
		violate("C11|POST /add|server-process-crash|"+crashSignature(se), map[string]interface{}{
			"what":            "the process hosting the real REST API died while serving POST /add requests (a goroutine of the code under test panicked outside the handler goroutine)",
			"recent_requests": recent, "stderr_tail": tail(se, 3000)})
		stuck++
		if stuck >= 6 { // the same item kills six children in a row: skip it
			R.NotExhaustive(fmt.Sprintf("add worker died 6 times at item %d (%s %s): item skipped", next, items[next].Req.Method, items[next].Req.Target))
			next++
			stuck = 0
		}
	}
}

func tail(s string, n int) string {
	if len(s) > n {
		return "..." + s[len(s)-n:]
	}
	return s
}
