package c11

import (
	"bytes"
	"context"
	"encoding/base64"
	"fmt"
	"io"
	"net/url"
	"testing"

	"github.com/ipfs/ipfs-cluster/api"

	files "github.com/ipfs/go-ipfs-files"
)

// TestClientAddImportParams: the import parameters of an add travel as query
// arguments and are only observable through the DAG the server builds. For
// every combination of the import parameters the root pinned for a call made
// through the bundled client must equal the root pinned for a raw request
// that spells out every parameter explicitly (query written by this harness,
// not by the client library).
func TestClientAddImportParams(t *testing.T) {
	s := newServer(t, credCfgs[0])
	defer s.close()
	cl := newClient(t, s, "", "")
	sec := R.Sec("client add: import parameters arrive as given (root equality with an explicit raw request)")
	content := bytes.Repeat([]byte("hello c11 import params "), 400)
	mkReader := func() *files.MultiFileReader {
		entries := []files.DirEntry{files.FileEntry("hello.txt", files.NewBytesFile(content))}
		return files.NewMultiFileReader(files.NewSliceDirectory(entries), true)
	}
	rootOf := func(cs []call) string {
		for i := len(cs) - 1; i >= 0; i-- {
			if cs[i].name() == "Cluster.Pin" {
				if p, ok := cs[i].Arg.(api.Pin); ok {
					return p.Cid.String()
				}
			}
		}
		return ""
	}
	n := 0
	for _, cidv := range []int{0, 1} {
		for _, raw := range []bool{false, true} {
			for _, layout := range []string{"", "balanced", "trickle"} {
				for _, chunker := range []string{"", "size-1024"} {
					for _, wrap := range []bool{false, true} {
						for _, hash := range []string{"sha2-256", "sha2-512"} {
							p := api.DefaultAddParams()
							p.CidVersion, p.RawLeaves, p.Layout, p.Chunker, p.Wrap, p.HashFun = cidv, raw, layout, chunker, wrap, hash
							label := fmt.Sprintf("cid-version=%d,raw-leaves=%v,layout=%q,chunker=%q,wrap=%v,hash=%s", cidv, raw, layout, chunker, wrap, hash)
							// through the client library
							s.rec.reset("ok")
							out := make(chan *api.AddedOutput, 16)
							done := make(chan struct{})
							go func() {
								for range out {
								}
								close(done)
							}()
							err := cl.AddMultiFile(context.Background(), mkReader(), p, out)
							<-done
							viaClient := rootOf(s.rec.snapshot())
							// raw request with every parameter spelled out
							q := url.Values{}
							q.Set("cid-version", fmt.Sprint(cidv))
							q.Set("raw-leaves", fmt.Sprint(raw))
							q.Set("layout", layout)
							q.Set("chunker", chunker)
							q.Set("wrap-with-directory", fmt.Sprint(wrap))
							q.Set("hash", hash)
							q.Set("replication-min", "0")
							q.Set("replication-max", "0")
							q.Set("shard", "false")
							q.Set("local", "false")
							q.Set("recursive", "false")
							q.Set("hidden", "false")
							q.Set("progress", "false")
							q.Set("stream-channels", "true")
							q.Set("nocopy", "false")
							mfr := mkReader()
							body, _ := io.ReadAll(mfr)
							o := s.do(reqSpec{Method: "POST", Target: "/add?" + q.Encode(), Headers: map[string]string{"Content-Type": "multipart/form-data; boundary=" + mfr.Boundary()},
								Body: base64.StdEncoding.EncodeToString(body), BodyB64: true})
							viaRaw := rootOf(o.Calls)
							n++
							outcome := "same-root"
							switch {
							case err != nil && o.Status >= 400:
								outcome = "both-refused"
							case err != nil || o.Status >= 400 || viaClient == "" || viaRaw == "":
								outcome = "one-side-failed"
							case viaClient != viaRaw:
								outcome = "different-root"
							}
							R.Eval(sec, "client-add-params|"+label+"|"+outcome, true)
							R.Outcome(sec, outcome)
							if outcome == "different-root" || outcome == "one-side-failed" {
								R.Violation("C11|client.AddMultiFile|import-params|"+outcome+"|cid-version="+fmt.Sprint(cidv)+",raw-leaves="+fmt.Sprint(raw), map[string]interface{}{
									"params": label, "root_via_client_library": viaClient, "client_error": fmt.Sprint(err),
									"root_via_explicit_raw_request": viaRaw, "raw_status": o.Status, "raw_query": q.Encode()})
							}
						}
					}
				}
			}
		}
	}
	sec.Bounds["combinations"] = n
}
