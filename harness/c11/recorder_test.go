package c11

// Recording RPC services: every method of the real Cluster / PinTracker /
// IPFSConnector / Consensus / PeerMonitor RPC APIs exists here with the same
// signature (checked by reflection against the real types in TestRecorderCoversRealRPCAPI),
// logs the call with a copy of its full argument, and answers from a small
// scripted table selected by recorder.mode ("ok", "err", "notfound").

import (
	"context"
	"errors"
	"sort"
	"sync"
	"time"

	cid "github.com/ipfs/go-cid"
	"github.com/ipfs/ipfs-cluster/api"
	peer "github.com/libp2p/go-libp2p-core/peer"
	rpc "github.com/libp2p/go-libp2p-gorpc"
	multiaddr "github.com/multiformats/go-multiaddr"
)

// call is one recorded RPC call.
type call struct {
	Svc    string      `json:"svc"`
	Method string      `json:"method"`
	Arg    interface{} `json:"arg"` // deep-enough copy of the argument (value types)
}

func (c call) name() string { return c.Svc + "." + c.Method }

type recorder struct {
	mu    sync.Mutex
	calls []call
	mode  string // ok | err | notfound
}

func (r *recorder) reset(mode string) {
	r.mu.Lock()
	r.calls = nil
	r.mode = mode
	r.mu.Unlock()
}

func (r *recorder) snapshot() []call {
	r.mu.Lock()
	defer r.mu.Unlock()
	out := make([]call, len(r.calls))
	copy(out, r.calls)
	return out
}

// errScripted is what every service answers in mode "err".
var errScripted = errors.New("scripted rpc failure")

// errNotFoundText equals state.ErrNotFound's message (the REST API maps an
// RPC error with this text to 404 on unpin).
const errNotFoundText = "pin is not part of the pinset"

func (r *recorder) rec(svc, method string, arg interface{}) error {
	r.mu.Lock()
	defer r.mu.Unlock()
	r.calls = append(r.calls, call{svc, method, arg})
	switch r.mode {
	case "err":
		return errScripted
	case "notfound":
		return errors.New(errNotFoundText)
	}
	return nil
}

func copyPin(p *api.Pin) api.Pin {
	if p == nil {
		return api.Pin{}
	}
	q := *p
	q.UserAllocations = append([]peer.ID(nil), p.UserAllocations...)
	q.Allocations = append([]peer.ID(nil), p.Allocations...)
	q.Origins = append([]multiaddr.Multiaddr(nil), p.Origins...)
	if p.Metadata != nil {
		q.Metadata = map[string]string{}
		for k, v := range p.Metadata {
			q.Metadata[k] = v
		}
	}
	return q
}

func copyPinPath(p *api.PinPath) api.PinPath {
	if p == nil {
		return api.PinPath{}
	}
	q := *p
	pp := copyPin(&api.Pin{PinOptions: p.PinOptions})
	q.PinOptions = pp.PinOptions
	return q
}

// ---- scripted answers (fixed, non-trivial, JSON round-trippable) ----

var (
	cidV0   = mustCid("QmUNLLsPACCz1vLxQVkXqqLX5R1X345qqfHbsf67hvA3Nn")
	cidV1   = mustCid("bafybeigdyrzt5sfp7udm7hu76uh7y26nf3efuylqabf3oclgtqy55fbzdi")
	cidV1b  = mustCid("bafkreihdwdcefgh4dqkjv67uzcmw7ojee6xedzdetojuzjevtenxquvyku")
	cidAns  = mustCid("QmP63DkAFEnDYNjDYBpyNDfttu1fvUw99x1brscPzpqmmq")
	cidAns2 = mustCid("QmP63DkAFEnDYNjDYBpyNDfttu1fvUw99x1brscPzpqmmr")
	cidUpd  = mustCid("QmSnuWmxptJZdLJpKRarxBMS2Ju2oANVrgbr2xWbie9b2D")

	peerA = mustPeer("QmXZrtE5jQwXNqCJMfHUTQkvhQ4ZAnqMnmzFMJfLewuabc")
	peerB = mustPeer("QmUZ13osndQ5uL4tPWHXe3iBgBgq9gfewcBMSCAuMBsDJ6")
	peerC = mustPeer("12D3KooWGHTKzeT4KaLGLrbKKyT8zKrBPXAUBRzCAN6ZMDMo4M6M")

	tFixed = time.Date(2031, 2, 3, 4, 5, 6, 0, time.UTC)
)

func mustCid(s string) cid.Cid {
	c, err := cid.Decode(s)
	if err != nil {
		panic("bad fixture cid " + s + ": " + err.Error())
	}
	return c
}

func mustPeer(s string) peer.ID {
	p, err := peer.Decode(s)
	if err != nil {
		panic("bad fixture peer " + s + ": " + err.Error())
	}
	return p
}

func mustMaddr(s string) multiaddr.Multiaddr {
	m, err := multiaddr.NewMultiaddr(s)
	if err != nil {
		panic("bad fixture multiaddr " + s + ": " + err.Error())
	}
	return m
}

func ansID() api.ID {
	a, _ := api.NewMultiaddr("/ip4/10.1.2.3/tcp/9096/p2p/" + peer.Encode(peerA))
	return api.ID{
		ID: peerA, Addresses: []api.Multiaddr{a}, ClusterPeers: []peer.ID{peerA, peerB},
		ClusterPeersAddresses: []api.Multiaddr{a}, Version: "0.0.scripted", Commit: "abc",
		RPCProtocolVersion: "/scripted/1", Peername: "scripted-peer",
		IPFS: &api.IPFSID{ID: peerB, Addresses: []api.Multiaddr{a}},
	}
}

func ansPin() api.Pin {
	p := api.PinCid(cidAns)
	p.Name = "scripted answer"
	p.ReplicationFactorMin = 2
	p.ReplicationFactorMax = 3
	p.Allocations = []peer.ID{peerA, peerB}
	p.Metadata = map[string]string{"k": "v"}
	p.ExpireAt = tFixed
	return *p
}

// scripted pinset: one pin per pin type, so that type filters are observable.
func ansPins() []*api.Pin {
	mk := func(c cid.Cid, t api.PinType, name string) *api.Pin {
		p := api.PinCid(c)
		p.Type = t
		p.Name = name
		p.Metadata = map[string]string{}
		return p
	}
	ref := cidAns
	m := mk(cidV1, api.MetaType, "meta")
	m.Reference = &ref
	return []*api.Pin{
		mk(cidAns, api.DataType, "data"),
		m,
		mk(cidV1b, api.ClusterDAGType, "cdag"),
		mk(cidAns2, api.ShardType, "shard"),
	}
}

func ansPinInfo() api.PinInfo {
	return api.PinInfo{Cid: cidAns, Name: "pi", Peer: peerA,
		PinInfoShort: api.PinInfoShort{PeerName: "pa", Status: api.TrackerStatusPinned, TS: tFixed}}
}

func ansGPI() api.GlobalPinInfo {
	return api.GlobalPinInfo{Cid: cidAns, Name: "gpi", PeerMap: map[string]*api.PinInfoShort{
		peer.Encode(peerA): {PeerName: "pa", Status: api.TrackerStatusPinned, TS: tFixed},
		peer.Encode(peerB): {PeerName: "pb", Status: api.TrackerStatusPinError, TS: tFixed, Error: "scripted"},
	}}
}

func ansMetrics(name string) []*api.Metric {
	return []*api.Metric{
		{Name: name, Peer: peerA, Value: "11", Expire: 1900000000000000000, Valid: true, ReceivedAt: 1800000000000000000},
		{Name: name, Peer: peerB, Value: "22", Expire: 1900000000000000001, Valid: false, ReceivedAt: 1800000000000000001},
	}
}

func ansGraph() api.ConnectGraph {
	return api.ConnectGraph{
		ClusterID:         peerA,
		IDtoPeername:      map[string]string{peer.Encode(peerA): "pa"},
		IPFSLinks:         map[string][]peer.ID{peer.Encode(peerB): {peerC}},
		ClusterLinks:      map[string][]peer.ID{peer.Encode(peerA): {peerB}},
		ClusterTrustLinks: map[string]bool{peer.Encode(peerA): true},
		ClustertoIPFS:     map[string]peer.ID{peer.Encode(peerA): peerB},
	}
}

func ansRepoGC() api.RepoGC {
	return api.RepoGC{Peer: peerA, Peername: "pa", Keys: []api.IPFSRepoGC{{Key: cidAns}, {Key: cidAns2, Error: "x"}}}
}

func ansGlobalRepoGC() api.GlobalRepoGC {
	a := ansRepoGC()
	b := ansRepoGC()
	b.Peer, b.Peername = peerB, "pb"
	return api.GlobalRepoGC{PeerMap: map[string]*api.RepoGC{peer.Encode(peerA): &a, peer.Encode(peerB): &b}}
}

func ansAlerts() []api.Alert {
	return []api.Alert{{Metric: *ansMetrics("ping")[0], TriggeredAt: tFixed}}
}

// ---- services ----

type recCluster struct{ r *recorder }
type recPinTracker struct{ r *recorder }
type recIPFSConnector struct{ r *recorder }
type recConsensus struct{ r *recorder }
type recPeerMonitor struct{ r *recorder }

func (s *recCluster) ID(ctx context.Context, in struct{}, out *api.ID) error {
	if err := s.r.rec("Cluster", "ID", in); err != nil {
		return err
	}
	*out = ansID()
	return nil
}
func (s *recCluster) Pin(ctx context.Context, in *api.Pin, out *api.Pin) error {
	if err := s.r.rec("Cluster", "Pin", copyPin(in)); err != nil {
		return err
	}
	*out = ansPin()
	return nil
}
func (s *recCluster) Unpin(ctx context.Context, in *api.Pin, out *api.Pin) error {
	if err := s.r.rec("Cluster", "Unpin", copyPin(in)); err != nil {
		return err
	}
	*out = ansPin()
	return nil
}
func (s *recCluster) PinPath(ctx context.Context, in *api.PinPath, out *api.Pin) error {
	if err := s.r.rec("Cluster", "PinPath", copyPinPath(in)); err != nil {
		return err
	}
	*out = ansPin()
	return nil
}
func (s *recCluster) UnpinPath(ctx context.Context, in *api.PinPath, out *api.Pin) error {
	if err := s.r.rec("Cluster", "UnpinPath", copyPinPath(in)); err != nil {
		return err
	}
	*out = ansPin()
	return nil
}
func (s *recCluster) Pins(ctx context.Context, in struct{}, out *[]*api.Pin) error {
	if err := s.r.rec("Cluster", "Pins", in); err != nil {
		return err
	}
	*out = ansPins()
	return nil
}
func (s *recCluster) PinGet(ctx context.Context, in cid.Cid, out *api.Pin) error {
	if err := s.r.rec("Cluster", "PinGet", in); err != nil {
		return err
	}
	*out = ansPin()
	return nil
}
func (s *recCluster) Version(ctx context.Context, in struct{}, out *api.Version) error {
	if err := s.r.rec("Cluster", "Version", in); err != nil {
		return err
	}
	*out = api.Version{Version: "0.0.scripted"}
	return nil
}
func (s *recCluster) Peers(ctx context.Context, in struct{}, out *[]*api.ID) error {
	if err := s.r.rec("Cluster", "Peers", in); err != nil {
		return err
	}
	a, b := ansID(), ansID()
	b.ID, b.Peername = peerB, "scripted-peer-b"
	*out = []*api.ID{&a, &b}
	return nil
}
func (s *recCluster) PeerAdd(ctx context.Context, in peer.ID, out *api.ID) error {
	if err := s.r.rec("Cluster", "PeerAdd", in); err != nil {
		return err
	}
	*out = ansID()
	return nil
}
func (s *recCluster) ConnectGraph(ctx context.Context, in struct{}, out *api.ConnectGraph) error {
	if err := s.r.rec("Cluster", "ConnectGraph", in); err != nil {
		return err
	}
	*out = ansGraph()
	return nil
}
func (s *recCluster) PeerRemove(ctx context.Context, in peer.ID, out *struct{}) error {
	return s.r.rec("Cluster", "PeerRemove", in)
}
func (s *recCluster) Join(ctx context.Context, in api.Multiaddr, out *struct{}) error {
	return s.r.rec("Cluster", "Join", in.String())
}
func (s *recCluster) StatusAll(ctx context.Context, in api.TrackerStatus, out *[]*api.GlobalPinInfo) error {
	if err := s.r.rec("Cluster", "StatusAll", in); err != nil {
		return err
	}
	g := ansGPI()
	*out = []*api.GlobalPinInfo{&g}
	return nil
}
func (s *recCluster) StatusAllLocal(ctx context.Context, in api.TrackerStatus, out *[]*api.PinInfo) error {
	if err := s.r.rec("Cluster", "StatusAllLocal", in); err != nil {
		return err
	}
	p := ansPinInfo()
	*out = []*api.PinInfo{&p}
	return nil
}
func (s *recCluster) Status(ctx context.Context, in cid.Cid, out *api.GlobalPinInfo) error {
	if err := s.r.rec("Cluster", "Status", in); err != nil {
		return err
	}
	*out = ansGPI()
	return nil
}
func (s *recCluster) StatusLocal(ctx context.Context, in cid.Cid, out *api.PinInfo) error {
	if err := s.r.rec("Cluster", "StatusLocal", in); err != nil {
		return err
	}
	*out = ansPinInfo()
	return nil
}
func (s *recCluster) RecoverAll(ctx context.Context, in struct{}, out *[]*api.GlobalPinInfo) error {
	if err := s.r.rec("Cluster", "RecoverAll", in); err != nil {
		return err
	}
	g := ansGPI()
	*out = []*api.GlobalPinInfo{&g}
	return nil
}
func (s *recCluster) RecoverAllLocal(ctx context.Context, in struct{}, out *[]*api.PinInfo) error {
	if err := s.r.rec("Cluster", "RecoverAllLocal", in); err != nil {
		return err
	}
	p := ansPinInfo()
	*out = []*api.PinInfo{&p}
	return nil
}
func (s *recCluster) Recover(ctx context.Context, in cid.Cid, out *api.GlobalPinInfo) error {
	if err := s.r.rec("Cluster", "Recover", in); err != nil {
		return err
	}
	*out = ansGPI()
	return nil
}
func (s *recCluster) RecoverLocal(ctx context.Context, in cid.Cid, out *api.PinInfo) error {
	if err := s.r.rec("Cluster", "RecoverLocal", in); err != nil {
		return err
	}
	*out = ansPinInfo()
	return nil
}
func (s *recCluster) BlockAllocate(ctx context.Context, in *api.Pin, out *[]peer.ID) error {
	if err := s.r.rec("Cluster", "BlockAllocate", copyPin(in)); err != nil {
		return err
	}
	*out = []peer.ID{peerA, peerB}
	return nil
}
func (s *recCluster) RepoGC(ctx context.Context, in struct{}, out *api.GlobalRepoGC) error {
	if err := s.r.rec("Cluster", "RepoGC", in); err != nil {
		return err
	}
	*out = ansGlobalRepoGC()
	return nil
}
func (s *recCluster) RepoGCLocal(ctx context.Context, in struct{}, out *api.RepoGC) error {
	if err := s.r.rec("Cluster", "RepoGCLocal", in); err != nil {
		return err
	}
	*out = ansRepoGC()
	return nil
}
func (s *recCluster) SendInformerMetric(ctx context.Context, in struct{}, out *api.Metric) error {
	return s.r.rec("Cluster", "SendInformerMetric", in)
}
func (s *recCluster) SendInformersMetrics(ctx context.Context, in struct{}, out *[]*api.Metric) error {
	return s.r.rec("Cluster", "SendInformersMetrics", in)
}
func (s *recCluster) Alerts(ctx context.Context, in struct{}, out *[]api.Alert) error {
	if err := s.r.rec("Cluster", "Alerts", in); err != nil {
		return err
	}
	*out = ansAlerts()
	return nil
}

func (s *recPinTracker) Track(ctx context.Context, in *api.Pin, out *struct{}) error {
	return s.r.rec("PinTracker", "Track", copyPin(in))
}
func (s *recPinTracker) Untrack(ctx context.Context, in *api.Pin, out *struct{}) error {
	return s.r.rec("PinTracker", "Untrack", copyPin(in))
}
func (s *recPinTracker) StatusAll(ctx context.Context, in api.TrackerStatus, out *[]*api.PinInfo) error {
	return s.r.rec("PinTracker", "StatusAll", in)
}
func (s *recPinTracker) Status(ctx context.Context, in cid.Cid, out *api.PinInfo) error {
	return s.r.rec("PinTracker", "Status", in)
}
func (s *recPinTracker) RecoverAll(ctx context.Context, in struct{}, out *[]*api.PinInfo) error {
	return s.r.rec("PinTracker", "RecoverAll", in)
}
func (s *recPinTracker) Recover(ctx context.Context, in cid.Cid, out *api.PinInfo) error {
	return s.r.rec("PinTracker", "Recover", in)
}

func (s *recIPFSConnector) Pin(ctx context.Context, in *api.Pin, out *struct{}) error {
	return s.r.rec("IPFSConnector", "Pin", copyPin(in))
}
func (s *recIPFSConnector) Unpin(ctx context.Context, in *api.Pin, out *struct{}) error {
	return s.r.rec("IPFSConnector", "Unpin", copyPin(in))
}
func (s *recIPFSConnector) PinLsCid(ctx context.Context, in *api.Pin, out *api.IPFSPinStatus) error {
	return s.r.rec("IPFSConnector", "PinLsCid", copyPin(in))
}
func (s *recIPFSConnector) PinLs(ctx context.Context, in string, out *map[string]api.IPFSPinStatus) error {
	return s.r.rec("IPFSConnector", "PinLs", in)
}
func (s *recIPFSConnector) ConfigKey(ctx context.Context, in string, out *interface{}) error {
	return s.r.rec("IPFSConnector", "ConfigKey", in)
}
func (s *recIPFSConnector) RepoStat(ctx context.Context, in struct{}, out *api.IPFSRepoStat) error {
	return s.r.rec("IPFSConnector", "RepoStat", in)
}
func (s *recIPFSConnector) SwarmPeers(ctx context.Context, in struct{}, out *[]peer.ID) error {
	return s.r.rec("IPFSConnector", "SwarmPeers", in)
}
func (s *recIPFSConnector) BlockPut(ctx context.Context, in *api.NodeWithMeta, out *struct{}) error {
	// only the CID and size are kept (the payload is the file content)
	return s.r.rec("IPFSConnector", "BlockPut", map[string]interface{}{"cid": in.Cid.String(), "len": len(in.Data)})
}
func (s *recIPFSConnector) BlockGet(ctx context.Context, in cid.Cid, out *[]byte) error {
	return s.r.rec("IPFSConnector", "BlockGet", in)
}
func (s *recIPFSConnector) Resolve(ctx context.Context, in string, out *cid.Cid) error {
	if err := s.r.rec("IPFSConnector", "Resolve", in); err != nil {
		return err
	}
	*out = cidAns
	return nil
}

func (s *recConsensus) LogPin(ctx context.Context, in *api.Pin, out *struct{}) error {
	return s.r.rec("Consensus", "LogPin", copyPin(in))
}
func (s *recConsensus) LogUnpin(ctx context.Context, in *api.Pin, out *struct{}) error {
	return s.r.rec("Consensus", "LogUnpin", copyPin(in))
}
func (s *recConsensus) AddPeer(ctx context.Context, in peer.ID, out *struct{}) error {
	return s.r.rec("Consensus", "AddPeer", in)
}
func (s *recConsensus) RmPeer(ctx context.Context, in peer.ID, out *struct{}) error {
	return s.r.rec("Consensus", "RmPeer", in)
}
func (s *recConsensus) Peers(ctx context.Context, in struct{}, out *[]peer.ID) error {
	return s.r.rec("Consensus", "Peers", in)
}

func (s *recPeerMonitor) LatestMetrics(ctx context.Context, in string, out *[]*api.Metric) error {
	if err := s.r.rec("PeerMonitor", "LatestMetrics", in); err != nil {
		return err
	}
	*out = ansMetrics(in)
	return nil
}
func (s *recPeerMonitor) MetricNames(ctx context.Context, in struct{}, out *[]string) error {
	if err := s.r.rec("PeerMonitor", "MetricNames", in); err != nil {
		return err
	}
	*out = []string{"ping", "freespace"}
	return nil
}

// services returns name -> receiver for registration and for the reflection
// comparison with the real RPC API types.
func (r *recorder) services() map[string]interface{} {
	return map[string]interface{}{
		"Cluster":       &recCluster{r},
		"PinTracker":    &recPinTracker{r},
		"IPFSConnector": &recIPFSConnector{r},
		"Consensus":     &recConsensus{r},
		"PeerMonitor":   &recPeerMonitor{r},
	}
}

// newRPC builds the in-process gorpc server+client pair the way the repo's
// own mock does (rpc.NewServer(nil, ..) + rpc.NewClientWithServer).
func newRPC(r *recorder) (*rpc.Client, error) {
	s := rpc.NewServer(nil, "c11")
	c := rpc.NewClientWithServer(nil, "c11", s)
	svcs := r.services()
	names := make([]string, 0, len(svcs))
	for n := range svcs {
		names = append(names, n)
	}
	sort.Strings(names)
	for _, n := range names {
		if err := s.RegisterName(n, svcs[n]); err != nil {
			return nil, err
		}
	}
	return c, nil
}
