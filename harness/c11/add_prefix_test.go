package c11

import (
	"bytes"
	"encoding/base64"
	"fmt"
	"io"
	"mime/multipart"
	"testing"

	files "github.com/ipfs/go-ipfs-files"
)

// streamBroken walks a multipart body with go-ipfs-files alone and tells
// whether that layer reports the stream as broken (a directory iterator ends
// with an error). An end of input inside a part's header block is presented by
// mime/multipart as a plain end of the stream - a complete upload of fewer
// files to every reader - and is not counted.
func streamBroken(body []byte, boundary string) bool {
	d, err := files.NewFileFromPartReader(multipart.NewReader(bytes.NewReader(body), boundary), "multipart/form-data")
	if err != nil {
		return true
	}
	var walk func(dir files.Directory) bool
	walk = func(dir files.Directory) bool {
		it := dir.Entries()
		for it.Next() {
			switch n := it.Node().(type) {
			case files.Directory:
				if walk(n) {
					return true
				}
			case files.File:
				io.Copy(io.Discard, n)
			}
		}
		return it.Err() != nil
	}
	return walk(d)
}

// TestAddBodyPrefixes: POST /add with every proper prefix of a well-formed
// multipart body (the request itself is complete: Content-Length is the
// prefix's). A body the files layer reports as broken is a malformed body: the
// answer must say so (error status, or the stream-error trailer) and nothing
// may be pinned.
func TestAddBodyPrefixes(t *testing.T) {
	s := newServer(t, credCfgs[0])
	defer s.close()
	sec := R.Sec("POST /add: every proper prefix of a multipart body")
	f := func(name string, n int, seed byte) files.DirEntry {
		b := make([]byte, n)
		for i := range b {
			b[i] = seed + byte(i%7)
		}
		return files.FileEntry(name, files.NewBytesFile(b))
	}
	trees := []struct {
		name string
		mk   func() files.Directory
	}{
		{"one-file", func() files.Directory { return files.NewSliceDirectory([]files.DirEntry{f("a.txt", 12, 'a')}) }},
		{"dir-of-two", func() files.Directory {
			return files.NewSliceDirectory([]files.DirEntry{files.FileEntry("d", files.NewSliceDirectory([]files.DirEntry{f("a", 5, 'b'), f("b", 9, 'c')}))})
		}},
		{"two-files", func() files.Directory { return files.NewSliceDirectory([]files.DirEntry{f("a", 5, 'd'), f("b", 9, 'e')}) }},
	}
	queries := []string{"", "?wrap-with-directory=true", "?stream-channels=false", "?wrap-with-directory=true&stream-channels=false"}
	n := 0
	for _, tr := range trees {
		mfr := files.NewMultiFileReader(tr.mk(), true)
		body, err := io.ReadAll(mfr)
		if err != nil {
			t.Fatal(err)
		}
		for cut := 0; cut < len(body); cut++ {
			broken := streamBroken(body[:cut], mfr.Boundary())
			for _, q := range queries {
				if tr.name == "two-files" && (q == "" || q == "?stream-channels=false") {
					continue // several roots without a wrapping directory: not one add
				}
				s.rec.reset("ok")
				o := s.do(reqSpec{Method: "POST", Target: "/add" + q, Headers: map[string]string{"Content-Type": "multipart/form-data; boundary=" + mfr.Boundary()},
					Body: base64.StdEncoding.EncodeToString(body[:cut]), BodyB64: true})
				n++
				pinned := false
				for _, c := range o.Calls {
					if c.name() == "Cluster.Pin" {
						pinned = true
					}
				}
				failed := o.Status != 200 || o.Trailer != ""
				outcome := "accepted"
				if failed {
					outcome = "refused"
				}
				if pinned {
					outcome += "+pinned"
				}
				R.Eval(sec, fmt.Sprintf("%s|%s|cut=%d|broken=%v|%s", tr.name, q, cut, broken, outcome), true)
				R.Outcome(sec, fmt.Sprintf("broken=%v:%s", broken, outcome))
				sym := ""
				switch {
				case broken && pinned:
					sym = "malformed-body-pinned"
				case broken && !failed:
					sym = "malformed-body-answered-as-success"
				case failed && pinned:
					sym = "refused-but-pinned"
				}
				if sym != "" {
					R.Violation("C11|POST /add|body-prefix|"+tr.name+"|"+q+"|"+sym, map[string]interface{}{
						"tree": tr.name, "query": q, "body_bytes": len(body), "cut_after_bytes": cut, "files_layer_reports_broken_stream": broken,
						"status": o.Status, "stream_error_trailer": o.Trailer, "rpc_calls": len(o.Calls), "pinned": pinned})
				}
			}
		}
	}
	sec.Bounds["requests"] = n
	sec.Bounds["trees"] = "one file; a directory of two files; two top-level files (wrapped)"
	sec.Bounds["queries"] = queries
}
