#!/bin/bash
# tools/sweep.sh [tier] [ids...] : run the given tier of every (or the listed) check, one line per check
cd "$(dirname "$0")/.." || exit 2
TIER=${1:-thorough}; shift
IDS=${*:-C17 C18 C14 C01 C06 C09 C07 C12 C16 C11 C15 C10 C13 C03 C04 C05 C02 C08}
./setup.sh >/dev/null 2>&1
for id in $IDS; do
  s=$(date +%s)
  out=$(./vcheck $id $TIER 2>&1); rc=$?
  echo "$id rc=$rc $(( $(date +%s) - s ))s $(echo "$out" | grep '^RESULT' | tail -1)"
  echo "$out" | grep '^BROKEN\|^VIOLATION\|  key:' | head -6
done
