#!/bin/bash
# tools/mutants-all.sh [ids...] : regression of the own mutants: every /verif/mutants/<ID>-*.patch must make
# `vcheck <ID> quick` exit 1. Prints one line per patch and a summary; exit 1 if any applicable mutant survives.
cd "$(dirname "$0")/.." || exit 2
IDS=${*:-C01 C02 C03 C04 C05 C06 C07 C08 C09 C10 C11 C12 C13 C14 C15 C16 C17 C18}
bad=0
for id in $IDS; do
  for p in mutants/$id-*.patch; do
    [ -f "$p" ] || continue
    line=$(tools/mutant.sh $id $p | tail -1)
    echo "$line"
    case "$line" in *"rc=1 "*|*DOES-NOT-APPLY*) ;; *) bad=$((bad+1));; esac
  done
done
echo "mutants not detected: $bad"
[ $bad = 0 ]
