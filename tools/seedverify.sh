#!/bin/bash
# tools/seedverify.sh <ID> <seed-dir> <demo-src> <demo-dst-rel> <go-cmd...>
#   Confirms an independently written seeded change in a private worktree of /repo HEAD:
#   (1) demo passes on the unmodified tree, (2) patch applies, (3) demo fails with it,
#   (4) the repo's own tests of the touched packages still pass, (5) vcheck <ID> quick exits 1.
#   On success copies patch + demo + meta.json to /verif/seeded/<ID>/.
ID="$1"; SEED="$2"; DEMO="$3"; DST="$4"; shift 4
RUNCMD="$*"
export GOFLAGS=-mod=mod GOPROXY=off GOSUMDB=off GOTOOLCHAIN=local
WT=$(mktemp -d /var/tmp/wt-seedv-XXXXXX)
git -C /repo worktree add -q --detach "$WT" HEAD || exit 2
trap 'git -C /repo worktree remove --force "$WT" >/dev/null 2>&1' EXIT
cp "$SEED/$DEMO" "$WT/$DST"
[ -d "$SEED/quicstub" ] && { mkdir -p "$WT/SEED" && cp -r "$SEED/quicstub" "$WT/SEED/"; cp "$WT/go.mod" "$WT/SEED/go.stub.mod"; cp "$WT/go.sum" "$WT/SEED/go.stub.sum"; echo "replace github.com/libp2p/go-libp2p-quic-transport => $WT/SEED/quicstub" >> "$WT/SEED/go.stub.mod"; }
cd "$WT"
echo "--- demo on unmodified tree"
if ! eval "$RUNCMD" > /var/tmp/seedv-$ID-clean.log 2>&1; then echo "FAIL: demo does not pass on the unmodified tree"; tail -15 /var/tmp/seedv-$ID-clean.log; exit 1; fi
echo "    passes"
if ! git apply "$SEED/patch.diff"; then echo "FAIL: patch does not apply to HEAD"; exit 1; fi
echo "--- demo with the change"
if eval "$RUNCMD" > /var/tmp/seedv-$ID-seeded.log 2>&1; then echo "FAIL: demo passes with the change"; exit 1; fi
echo "    fails (as it must)"
PKGS=$(git diff --name-only | grep '\.go$' | xargs -n1 dirname | sort -u | sed 's|^|./|')
echo "--- repo's own tests for touched packages: $PKGS"
rm -f "$WT/$DST"
OWN=ok
for p in $PKGS; do
  if go vet "$p" >/dev/null 2>&1 || go build "$p" >/dev/null 2>&1; then
    go test -count=1 "$p" > /var/tmp/seedv-$ID-own.log 2>&1 || { OWN="FAILED($p)"; tail -5 /var/tmp/seedv-$ID-own.log; }
  else OWN="$OWN,nobuild-with-default-go($p)"; fi
done
echo "    own tests: $OWN"
echo "--- vcheck $ID quick against the seeded tree"
cd /verif
VERIF_REPO="$WT" timeout 1500 ./vcheck "$ID" quick > /var/tmp/seedv-$ID-vcheck.log 2>&1; rc=$?
git -C /verif checkout -- evidence 2>/dev/null
keys=$(grep -A1 '^VIOLATION' /var/tmp/seedv-$ID-vcheck.log | grep 'key:' | sed 's/^ *key: //' | head -4 | tr '\n' ';')
echo "    rc=$rc $(grep -c '^VIOLATION' /var/tmp/seedv-$ID-vcheck.log) violations: $keys"
OUT=${SEEDNAME:-$ID}; mkdir -p /verif/seeded/$OUT
cp "$SEED/patch.diff" /verif/seeded/$OUT/patch.diff
cp "$SEED/$DEMO" /verif/seeded/$OUT/
[ -f "$SEED/NOTES.md" ] && cp "$SEED/NOTES.md" /verif/seeded/$OUT/NOTES.md
python3 - "$OUT" "$DST" "$RUNCMD" "$OWN" "$rc" "$keys" <<'PY'
import json,sys
id,dst,cmd,own,rc,keys=sys.argv[1:7]
notes=open(f'/verif/seeded/{id}/NOTES.md').read() if __import__('os').path.exists(f'/verif/seeded/{id}/NOTES.md') else ''
json.dump({"property":id.split("-")[0],"demonstration":{"copy_to":dst,"command":cmd,"passes_without_change":True,"fails_with_change":True},
 "repo_own_tests_with_change":own,"vcheck_quick_exit_code":int(rc),"detected":int(rc)==1,
 "violation_keys":[k for k in keys.split(';') if k],
 "what_i_ran":"tools/seedverify.sh: fresh worktree of /repo HEAD; demo on clean tree (pass), git apply patch.diff, demo (fail), go test of touched packages, VERIF_REPO=<worktree> ./vcheck %s quick"%id.split('-')[0],
 "needs_to_manifest":"see NOTES.md (written by the independent author of the change)"},open(f'/verif/seeded/{id}/meta.json','w'),indent=1)
PY
echo "=== $ID detected=$([ $rc = 1 ] && echo yes || echo NO)"
