#!/bin/bash
# tools/mutant.sh <ID> <patch>...  : run `vcheck ID quick` against a private
# worktree of /repo with each patch applied; prints one line per patch.
ID="$1"; shift
for P in "$@"; do
  P=$(realpath "$P")
  WT=$(mktemp -d /var/tmp/wt-mut-XXXXXX)
  git -C /repo worktree add -q --detach "$WT" HEAD >/dev/null 2>&1 || { echo "$P: worktree failed"; continue; }
  if ! git -C "$WT" apply "$P" 2>/dev/null; then echo "$(basename $P): DOES-NOT-APPLY"; git -C /repo worktree remove --force "$WT"; continue; fi
  LOG=$(mktemp /var/tmp/mut-log-XXXXXX)
  VERIF_REPO="$WT" VERIF_ROOT_EVIDENCE_SKIP=1 timeout 900 /verif/vcheck "$ID" ${TIER:-quick} > "$LOG" 2>&1
  rc=$?
  keys=$(grep -A1 '^VIOLATION' "$LOG" | grep 'key:' | head -3 | sed 's/^ *key: //' | tr '\n' ';')
  echo "$(basename $P): rc=$rc $(grep -c '^VIOLATION' "$LOG") violations; $keys"
  [ "$rc" = 2 ] && grep -m3 'BROKEN' "$LOG"
  rm -f "$LOG"
  git -C /repo worktree remove --force "$WT"
done
git -C /verif checkout -- evidence 2>/dev/null
