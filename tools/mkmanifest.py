#!/usr/bin/env python3
"""Regenerates /verif/MANIFEST.json from the table below (one place to edit)."""
import json, os
ROOT = os.path.dirname(os.path.dirname(os.path.abspath(__file__)))
ids = [json.loads(l)['id'] for l in open(os.path.join(ROOT, 'properties.jsonl'))]

E3 = "smallscope (E3): bounded-exhaustive enumeration of inputs/histories on the real code against a reference oracle"
CHECKS = {
 "C02": dict(cat="model_checking", eng="E2 bubblesim (synctest, fake clock, mocknet)", tech="exhaustive enumeration of operation histories x batching configurations x age ticks x injected datastore failures x queue bursts (single replica) and of operation / link / sync histories (2-3 replicas) executed on real CRDT replicas; reference model of accepted operations evaluated at every quiescent state",
   text="(a) one REAL crdt.Consensus replica (go-ds-crdt over a fault-injecting datastore) per history: every history up to length 4 (thorough 5) over pin/unpin on 2 colliding CIDs, age ticks on the fake clock and <=1 (thorough 2) injected datastore failures, for batching off / size 2 / size 3 / age 5s / size+age, plus queue-of-1 bursts against a worker parked inside a datastore write; model: an accepted operation takes effect in submission order per CID, a batch becomes visible exactly when its size or age limit is reached (not before), a refused operation never takes effect, after a fault everything accepted is visible once the age limit has passed again with a healthy datastore, every change in the pinset was handed to the tracker. (b) 2 (thorough 3) real replicas with pubsub+bitswap over mocknet: every history up to length 4 (thorough 5) of operations at any replica, unlink/link and sync points; oracle: after exchanging all updates all replicas hold the same pinset, and for a CID whose writes since the last sync point all came from one replica the last one wins.",
   note="Findings must reproduce on two further executions of the same history before they are reported (libp2p/bitswap internals are not deterministic under the bubble); non-reproducing ones are counted and the run marked exhaustive:false. Concurrent writes to one CID from different replicas: only agreement is required.", ref="DESIGN.md §4 C02"),
 "C01": dict(cat="model_checking", eng="E2 bubblesim (synctest, fake clock, mocknet)", tech="exhaustive enumeration of operation histories x pin variants x deviation points (follower lag with/without snapshot+log truncation, snapshot, restart, kill/recover from a disk copy, isolated leader) executed on real Raft peers; invariants evaluated at every quiescent state",
   text="1 and 3 REAL raft.Consensus peers (hashicorp/raft, boltdb on disk, go-libp2p-raft transport, leader redirect over gorpc) on a libp2p mocknet inside synctest bubbles with a fake clock. Every history over the op alphabet (pin variants x 2 CIDs x submitting role, unpin) up to length 3 (thorough 4) with at most 1 (thorough 2) composite deviation at every position, plus all 14 pin variants as single-op histories through redirect, log, snapshot and restore. Oracle in every quiescent state: each member's pinset is the result of a prefix of the acknowledged sequence (own field-by-field comparator), an acknowledged operation is visible on the committing leader at once, a peer that has caught up (shows a marker committed after the history) holds exactly the whole sequence and so does its state read offline after shutdown, tracker hand-over matches the committed operations.",
   note="Kills are taken at quiescent points (disk image = copy of the data folder); torn writes inside boltdb / snapshot files are not modelled. Leader identity is chosen by hashicorp/raft's randomised timeouts: histories address roles. An operation whose acknowledgement failed may or may not be part of the sequence (both accepted).", ref="DESIGN.md §4 C01"),
 "C11": dict(cat="exploration", eng="E3 smallscope", tech="bounded-exhaustive enumeration (every route x method x value alphabet, one-at-a-time and pairs) on the real REST handler with recording RPC services",
   text="Every live mux route x 7 methods x valid/invalid value of every path variable and of every pin/add option (singles, then all pairs) x bodies x 3 credential configurations x 19 presented credentials, plus the bundled client library round trip, all executed against the real rest.API over loopback HTTP with recording RPC services; oracle from the property text (4xx and zero RPC calls, or exactly the route's call with the carried arguments; one JSON document; 401 and nothing performed without valid credentials). Exhaustive within the stated alphabets, which is the level a finite input-space property admits.",
   note="Alphabets contain one representative per code-visible distinction; sharded add is checked for refusal/body rules only; destination peers of RPC calls are not observable in-process.", ref="DESIGN.md §4 C11"),
 "C12": dict(cat="exploration", eng="E3 smallscope", tech="bounded-exhaustive enumeration of hijacked and pass-through requests on the real proxy between a recording fake daemon and recording RPC services",
   text="7 hijacked commands x 2 argument styles x 8 argument classes x 27 option settings (plus option pairs) x 6 methods, add bodies, and a pass-through grammar of 36 paths x 8 queries x 3 bodies x 7 methods, executed on the real ipfsproxy server; oracle from the property text (2xx hijack = the corresponding cluster call with the requested options and no mutating daemon call; error answer = zero cluster mutations; everything else relayed byte-identically).",
   note="Where the text does not say on which side a request falls (OPTIONS/HEAD/DELETE on a command path, multi-segment arguments) the oracle accepts hijack, faithful relay or a proxy-made non-2xx without effect. RPC failure injection is not enumerated.", ref="DESIGN.md §4 C12"),
 "C13": dict(cat="fault_enumeration", eng="E3 smallscope + fault injection", tech="bounded-exhaustive file-tree/parameter enumeration with block-put failure injected at every position, on the real adder against an independent reference importer",
   text="15-tree grammar x chunker x layout x raw-leaves x cid-version x hash x wrap x single/local/sharded (5 shard sizes) x replication x allocation rotation through the real adder.Adder and both DAG services over a 3-peer in-process RPC world with recording BlockPut/BlockAllocate/Pin; block-put failure at every fan-out position (first 24 + last 3 in quick, first 400 in thorough) on one/all destinations, transient or persistent. Oracle: link closure, byte-identical read-back, root equal to an independent go-unixfs reference importer and equal with/without sharding, pin entries as the text states, no root pin on failure.",
   note="Quick tier uses a strength-3 covering array over the parameter space (exhaustive:false) and the full fault positions; thorough runs the full product. 'Allocations the blocks were sent to' is read as the set of peers BlockPut calls were addressed to.", ref="DESIGN.md §4 C13"),
 "C14": dict(cat="model_checking", eng="E3 smallscope / explicit-state BFS", tech="explicit-state BFS over clean/backup histories on real directories against a list model; bounded-exhaustive pinset and peerstore round trips",
   text="(a) all subsets of size <=3 of a 15-pin alphabet (+ a 200-pin set) through dsstate Marshal/Unmarshal, raft SnapshotSave->OfflineState/LastStateRaw, real cmdutils export/import between raft, crdt+leveldb and crdt+badger managers (into empty and non-empty targets), and SnapshotSave->real single-peer raft consensus start; (b) BFS over SnapshotSave/CleanupRaft histories for N in {1,2,3,5} from every subset of pre-existing backup folders, with unmerged history trees to depth 4 (6 thorough), every transition executed on real directories and compared with a list model of the rotation; (c) peerstore files: address sets x priority permutations and 4256 files with malformed lines inserted at every position.",
   note="The raft-start path runs on the real clock (waits on Ready(), no timing oracle). Folders at index >= N, cleans of snapshot-less data and gap-filling choices are outcomes, not judged (text silent). dsstate.Unmarshal into a non-empty state is an observation only.", ref="DESIGN.md §4 C14"),
 "C15": dict(cat="exploration", eng="E3 smallscope", tech="bounded-exhaustive enumeration of every setting of every config section (reflection-derived field table) x value alphabet, singles and pairs, JSON / env / whole-file modes",
   text="152 leaf settings in 14 sections found by parsing the JSON structs, each with a value alphabet by kind, applied one-at-a-time and in pairs over default / rich / sparse bases, through LoadJSON, ApplyEnvVars and config.Manager; oracle: load error, or Validate ok and save/load/save reproduces every non-zero input (zero = default convention), Validate-rejected values refused, no panic; 34k display renderings scanned for marker secrets.",
   note="A relaxed Validate bound cannot be detected (Validate is the only range specification). Malformed-but-accepted values are recorded as observations.", ref="DESIGN.md §4 C15"),
 "C16": dict(cat="fault_enumeration", eng="E2 bubblesim (synctest, fake clock)", tech="exhaustive DFS over per-request daemon behaviour scripts (ok / errors / drops / stalls / progress patterns) x pin shapes x prior daemon states on the real connector in synctest bubbles",
   text="Real ipfshttp.Connector against a scripted model IPFS daemon over in-memory pipes inside testing/synctest bubbles (fake clock decides stalls): DFS branches on the behaviour of every request the connector actually sends (ls, swarm/connect, ls-src, update, add stream with 14-20 stream plans, rm) x 9-16 pin shapes x 4 target priors x 4 source priors; oracle from the property text on the daemon's final pin table and request log.",
   note="A cancelled request has no effect on the model daemon after cancellation; caller contexts carry no deadline (as the pin tracker's); dspinner/ipldpinner not-pinned messages are the same string in this version.", ref="DESIGN.md §4 C16"),
 "C18": dict(cat="model_checking", eng="E1 bubblesched + R race pass", tech="stateless model checking of the real code under a controlled scheduler: DFS over all thread schedules up to a preemption bound (sync/channel operations intercepted via build overlay), plus a separate free-running -race pass",
   text="2-3 concurrent callers per scenario on the real operation tracker, pin tracker, metrics store/checker/window, Cluster alerts path (a full real Cluster peer) and both informers; every schedule with <=2 (thorough <=3) preemptions is executed in a fresh synctest bubble under a cooperative scheduler whose scheduling points are the lock/rlock/waitgroup/channel operations (and listed unsynchronised field accesses) of overlay-instrumented repository files; oracles: no panic, no deadlock/livelock, structural checks on results, linearizability of the operation table against a sequential model (porcupine). Data races are decided by a separate free-running -race pass of the same bodies (not exhaustive).",
   note="Go map-iteration order and selects with several ready cases inside the code under test are not owned by the scheduler: scenarios that meet them are explored with divergence tolerance and reported exhaustive:false. Panics in component goroutines are caught by running each scenario in a child process.", ref="DESIGN.md §4 C18, §2.2, §2.5"),
}

checks = []
for i in ids:
    if i not in CHECKS: continue
    c = CHECKS[i]
    checks.append({
        "property_id": i,
        "quick_cmd": f"./vcheck {i} quick",
        "thorough_cmd": f"./vcheck {i} thorough",
        "evidence_file": f"/verif/evidence/{i}.json",
        "replay_cmd_template": f"./vcheck {i} quick --replay {{path}}",
        "engine": c["eng"],
        "level_claimed": {"category": c["cat"], "text": c["text"], "design_ref": c["ref"]},
        "level_note": c["note"],
        "technique": c["tech"],
    })
na = [{"property_id": i, "reason": "check under construction in this round (planned in DESIGN.md §4); not claimed until it runs clean"} for i in ids if i not in CHECKS]
m = {
 "version": 1,
 "setup_cmd": "./setup.sh",
 "hooks": {
   "guard": "none in /repo: instrumentation is a go build -overlay generated at check time from /repo's current files (tools/mkoverlay + shim/)",
   "enable": "./vcheck <ID> builds harness/<id> with go1.26 test -c -modfile <private go.mod replacing ipfs-cluster => /repo> [-overlay <generated>]",
   "baseline_off_cmd": "./tools/baseline.sh",
   "source_commits": [],
   "add_only": True},
 "engines": [
   {"name": "E1 bubblesched", "path": "harness/lib/e1, shim/sched, shim/sync, tools/mkoverlay", "serves_properties": ["C18"], "kind_free_text": "stateless preemption-bounded DFS over schedules of the real code under a cooperative scheduler inside testing/synctest bubbles"},
   {"name": "E2 bubblesim", "path": "harness/lib/clus + per-check drivers", "serves_properties": ["C01","C02","C16"], "kind_free_text": "event/fault-level exhaustive exploration of real components inside synctest bubbles (fake clock, quiescence detection)"},
   {"name": "E3 smallscope", "path": "harness/cNN", "serves_properties": ["C11","C12","C13","C14","C15"], "kind_free_text": "bounded-exhaustive inputs / explicit-state BFS over call histories against small reference models"},
 ],
 "checks": checks,
 "not_applicable": na,
 "notes": "Genuine defects repaired in /repo as 'fix:' commits and recorded in KNOWN_FINDINGS.jsonl as 'fixed:' lines; unrepaired ones are 'known' JSON lines there. Mutants under /verif/mutants, independent seeded changes under /verif/seeded.",
}
json.dump(m, open(os.path.join(ROOT, 'MANIFEST.json'), 'w'), indent=1)
print("checks:", [c['property_id'] for c in checks], "not claimed:", [n['property_id'] for n in na])
