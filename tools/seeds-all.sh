#!/bin/bash
# tools/seeds-all.sh [dirs...] : regression over the kept seeded changes: each /verif/seeded/<dir>/patch.diff,
# applied to a private worktree of /repo HEAD, must make `vcheck <ID> quick` exit 1. One line per seed.
cd "$(dirname "$0")/.." || exit 2
DIRS=${*:-$(ls seeded)}
bad=0
for d in $DIRS; do
  id=${d%%-*}
  [ -f seeded/$d/patch.diff ] || continue
  line=$(tools/mutant.sh $id seeded/$d/patch.diff | tail -1)
  echo "$d: ${line#patch.diff: }" | cut -c1-260
  case "$line" in *"rc=1 "*) ;; *) bad=$((bad+1));; esac
done
echo "seeds not detected: $bad"
[ $bad = 0 ]
