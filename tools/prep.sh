#!/bin/bash
# Regenerates the harness go.sum from /repo's current go.sum plus the few
# extra lines the harness' own dependencies need.  Atomic, idempotent.
set -e
ROOT="${VERIF_ROOT:-/verif}"
REPO="${VERIF_REPO:-/repo}"
H="$ROOT/harness"
tmp=$(mktemp "$H/.go.sum.XXXXXX")
cat "$REPO/go.sum" "$H/go.sum.extra" 2>/dev/null | LC_ALL=C sort -u > "$tmp"
if ! cmp -s "$tmp" "$H/go.sum"; then mv "$tmp" "$H/go.sum"; else rm -f "$tmp"; fi
