#!/bin/bash
# The repository's own test suite with no verification hooks (there are none in
# /repo: instrumentation is a build-time overlay).  Same command as BASELINE.json
# for the single module of this repository.
cd /repo && go test -mod=mod -json -vet=off -count=1 -timeout 25m ./...
