// mkoverlay generates a `go build -overlay` file that instruments selected
// files of the ipfs-cluster tree *as they are now* for the E1 controlled
// scheduler:
//   - the import "sync" is redirected to the shim package
//     github.com/ipfs/ipfs-cluster/verifshim/sync (same identifiers);
//   - with the "chan" flag a call sched.P(0) is inserted before, and sched.P(1)
//     after, every statement that performs a channel send/receive or select,
//     so channel operations of managed goroutines are scheduling points too.
//
// The shim packages are mapped into the module as virtual files.  /repo is not
// modified.  If a listed file no longer matches what the flags require the
// tool fails loudly instead of silently producing an un-instrumented build.
//
// List file format, one entry per line:  <path relative to repo> <flag>...
// flags: sync (must import "sync"), sync? (redirect if imported), chan,
// field=<name> (accesses to that struct field are scheduling points),
// add=<file under the shim directory> (the path does not exist in the tree and
// is mapped to that file: exports an internal function to the harness).
package main

import (
	"bufio"
	"bytes"
	"encoding/json"
	"flag"
	"fmt"
	"go/ast"
	"go/format"
	"go/parser"
	"go/token"
	"os"
	"path/filepath"
	"strconv"
	"strings"
)

const shimSync = "github.com/ipfs/ipfs-cluster/verifshim/sync"
const shimSched = "github.com/ipfs/ipfs-cluster/verifshim/sched"

func die(format string, a ...interface{}) {
	fmt.Fprintf(os.Stderr, "mkoverlay: "+format+"\n", a...)
	os.Exit(1)
}

func main() {
	repo := flag.String("repo", "/repo", "")
	shim := flag.String("shim", "/verif/shim", "")
	out := flag.String("out", "", "")
	list := flag.String("list", "", "")
	flag.Parse()
	if *out == "" || *list == "" {
		die("need -out and -list")
	}
	repoAbs, _ := filepath.Abs(*repo)
	repoAbs, _ = filepath.EvalSymlinks(repoAbs)
	replace := map[string]string{
		filepath.Join(repoAbs, "verifshim/sync/sync.go"):   filepath.Join(*shim, "sync/sync.go"),
		filepath.Join(repoAbs, "verifshim/sched/sched.go"): filepath.Join(*shim, "sched/sched.go"),
	}
	f, err := os.Open(*list)
	if err != nil {
		die("%v", err)
	}
	sc := bufio.NewScanner(f)
	points := 0
	for sc.Scan() {
		line := strings.TrimSpace(sc.Text())
		if line == "" || strings.HasPrefix(line, "#") {
			continue
		}
		fs := strings.Fields(line)
		rel := fs[0]
		flags := map[string]bool{}
		for _, x := range fs[1:] {
			flags[x] = true
		}
		src := filepath.Join(repoAbs, rel)
		added := false
		for x := range flags {
			if strings.HasPrefix(x, "add=") {
				// a file that does not exist in the tree: a virtual file of
				// that package, taken from the shim directory (exports an
				// internal function to the harness; /repo is not touched)
				if _, err := os.Stat(src); err == nil {
					die("%s already exists in the tree: cannot add it", rel)
				}
				replace[src] = filepath.Join(*shim, strings.TrimPrefix(x, "add="))
				added = true
			}
		}
		if added {
			continue
		}
		n, code := rewrite(src, flags)
		points += n
		dst := filepath.Join(*out, rel)
		os.MkdirAll(filepath.Dir(dst), 0o755)
		if err := os.WriteFile(dst, code, 0o644); err != nil {
			die("%v", err)
		}
		replace[src] = dst
	}
	b, _ := json.MarshalIndent(map[string]interface{}{"Replace": replace}, "", " ")
	os.MkdirAll(*out, 0o755)
	if err := os.WriteFile(filepath.Join(*out, "overlay.json"), b, 0o644); err != nil {
		die("%v", err)
	}
	fmt.Printf("mkoverlay: %d files, %d channel points\n", len(replace)-2, points)
}

func rewrite(src string, flags map[string]bool) (int, []byte) {
	fset := token.NewFileSet()
	file, err := parser.ParseFile(fset, src, nil, parser.ParseComments)
	if err != nil {
		die("%v", err)
	}
	if flags["sync"] || flags["sync?"] {
		found := flags["sync?"]
		for _, im := range file.Imports {
			if im.Path.Value == `"sync"` {
				im.Path.Value = strconv.Quote(shimSync)
				if im.Name == nil {
					im.Name = ast.NewIdent("sync")
				}
				found = true
			}
		}
		if !found {
			die("%s: flagged 'sync' but does not import \"sync\" any more; update the overlay list", src)
		}
	}
	n := 0
	for fl := range flags {
		if strings.HasPrefix(fl, "field=") {
			fieldNames[strings.TrimPrefix(fl, "field=")] = true
		}
	}
	defer func() { fieldNames = map[string]bool{} }()
	if flags["chan"] || len(fieldNames) > 0 {
		chanMode = flags["chan"]
		for _, d := range file.Decls {
			if fd, ok := d.(*ast.FuncDecl); ok && fd.Body != nil {
				n += instrBlock(fd.Body)
			}
		}
		if n == 0 {
			die("%s: flagged 'chan'/'field=' but nothing to instrument was found", src)
		}
		// add the import
		imp := &ast.ImportSpec{Name: ast.NewIdent("verifsched"), Path: &ast.BasicLit{Kind: token.STRING, Value: strconv.Quote(shimSched)}}
		for _, d := range file.Decls {
			if gd, ok := d.(*ast.GenDecl); ok && gd.Tok == token.IMPORT {
				gd.Specs = append(gd.Specs, imp)
				if !gd.Lparen.IsValid() {
					gd.Lparen = gd.Pos()
					gd.Rparen = gd.End()
				}
				break
			}
		}
	}
	var buf bytes.Buffer
	// comments are dropped on purpose when statements were inserted (free-floating
	// comments would be misplaced); positions of inserted nodes are zero.
	if n > 0 {
		file.Comments = nil
	}
	if err := format.Node(&buf, fset, file); err != nil {
		die("%s: %v", src, err)
	}
	return n, buf.Bytes()
}

// fieldNames: accesses to struct fields with these names are scheduling
// points too (for structures that use no synchronisation at all).
var fieldNames = map[string]bool{}
var chanMode bool

func pcall(after int) ast.Stmt {
	return &ast.ExprStmt{X: &ast.CallExpr{
		Fun:  &ast.SelectorExpr{X: ast.NewIdent("verifsched"), Sel: ast.NewIdent("P")},
		Args: []ast.Expr{&ast.BasicLit{Kind: token.INT, Value: strconv.Itoa(after)}},
	}}
}

// hasChanOp reports whether the statement itself (not nested function
// literals or nested blocks) performs a send or a receive.
func hasChanOp(s ast.Stmt) bool {
	found := false
	ast.Inspect(s, func(n ast.Node) bool {
		switch x := n.(type) {
		case *ast.FuncLit, *ast.BlockStmt:
			return false
		case *ast.SendStmt:
			if chanMode {
				found = true
			}
		case *ast.UnaryExpr:
			if chanMode && x.Op == token.ARROW {
				found = true
			}
		case *ast.SelectorExpr:
			if fieldNames[x.Sel.Name] {
				found = true
			}
		}
		return !found
	})
	return found
}

func instrList(list []ast.Stmt) ([]ast.Stmt, int) {
	var out []ast.Stmt
	n := 0
	for _, s := range list {
		n += instrStmt(s)
		switch x := s.(type) {
		case *ast.SelectStmt:
			if !chanMode {
				out = append(out, s)
				continue
			}
			out = append(out, pcall(0), s)
			n++
			// after-points at the start of each communication clause
			for _, c := range x.Body.List {
				cc := c.(*ast.CommClause)
				if cc.Comm != nil {
					cc.Body = append([]ast.Stmt{pcall(1)}, cc.Body...)
					n++
				}
			}
		case *ast.SendStmt, *ast.ExprStmt, *ast.AssignStmt, *ast.DeclStmt:
			if hasChanOp(s) {
				out = append(out, pcall(0), s, pcall(1))
				n += 2
			} else {
				out = append(out, s)
			}
		case *ast.ReturnStmt, *ast.IfStmt, *ast.SwitchStmt:
			if hasChanOpShallow(s) {
				out = append(out, pcall(0), s)
				n++
			} else {
				out = append(out, s)
			}
		default:
			out = append(out, s)
		}
	}
	return out, n
}

// hasChanOpShallow looks at the header expressions of a compound statement.
func hasChanOpShallow(s ast.Stmt) bool {
	switch x := s.(type) {
	case *ast.ReturnStmt:
		return hasChanOp(s)
	case *ast.IfStmt:
		if x.Init != nil && hasChanOp(x.Init) {
			return true
		}
		return x.Cond != nil && hasChanOp(&ast.ExprStmt{X: x.Cond})
	case *ast.SwitchStmt:
		if x.Init != nil && hasChanOp(x.Init) {
			return true
		}
		return x.Tag != nil && hasChanOp(&ast.ExprStmt{X: x.Tag})
	}
	return false
}

func instrBlock(b *ast.BlockStmt) int {
	if b == nil {
		return 0
	}
	var n int
	b.List, n = instrList(b.List)
	return n
}

// instrStmt descends into nested blocks and function literals.
func instrStmt(s ast.Stmt) int {
	n := 0
	switch x := s.(type) {
	case *ast.BlockStmt:
		n += instrBlock(x)
	case *ast.IfStmt:
		n += instrBlock(x.Body)
		if x.Else != nil {
			n += instrStmt(x.Else)
		}
	case *ast.ForStmt:
		n += instrBlock(x.Body)
	case *ast.RangeStmt:
		n += instrBlock(x.Body)
	case *ast.SwitchStmt:
		for _, c := range x.Body.List {
			cc := c.(*ast.CaseClause)
			var k int
			cc.Body, k = instrList(cc.Body)
			n += k
		}
	case *ast.TypeSwitchStmt:
		for _, c := range x.Body.List {
			cc := c.(*ast.CaseClause)
			var k int
			cc.Body, k = instrList(cc.Body)
			n += k
		}
	case *ast.SelectStmt:
		for _, c := range x.Body.List {
			cc := c.(*ast.CommClause)
			var k int
			cc.Body, k = instrList(cc.Body)
			n += k
		}
	case *ast.LabeledStmt:
		n += instrStmt(x.Stmt)
	}
	// function literals anywhere inside simple statements (go func(){...}(), defer func(){}(), assignments)
	switch s.(type) {
	case *ast.GoStmt, *ast.DeferStmt, *ast.ExprStmt, *ast.AssignStmt, *ast.ReturnStmt, *ast.DeclStmt:
		ast.Inspect(s, func(nd ast.Node) bool {
			if fl, ok := nd.(*ast.FuncLit); ok {
				n += instrBlock(fl.Body)
				return false
			}
			return true
		})
	}
	return n
}
