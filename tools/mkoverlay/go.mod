module verif/tools/mkoverlay

go 1.26.8
